"""C02 (translation validation): reset/step are pure functions of their arguments and commute with jit / vmap / scan.

A Gallina step IS a function, so determinism and `vmap = map`, `scan = fold` hold by construction in the model; what the
property is about lives in the Python/JAX runtime (hidden state on the env object, mutation of arguments, tracer leaks,
divergence between op-by-op execution and the traced program).  This module therefore compares the ONE reference result
per (state, action) — the jitted call, which is the mode the extracted Coq models are compared with everywhere else —
with the same call executed: op-by-op ("eager"), repeated, after unrelated calls on the same object, on a FRESH instance
of the same configuration, under vmap for batch sizes {1, 2, 7} (each element against the per-instance result) and under
lax.scan of lengths {1, 5, T} (against the step-by-step loop); argument pytrees are snapshotted before and compared
after every eager call.  Integer / bool leaves must agree exactly; float leaves within 1e-5 relative (XLA may fuse
differently per program — stated in the evidence).  Supporting: the jaxpr of step/reset has no effects and no callbacks."""
import numpy as np

from harness import rollout as R

PROPS = ["C02"]


def leaves(t):
    """numpy leaves; a leaf that is a plain Python scalar (some eager resets return Python ints where the traced program
    returns int32 arrays) is first converted the way JAX itself converts it (jnp.asarray: int -> int32, float -> float32),
    so that only VALUES and genuine array dtypes are compared"""
    import jax
    import jax.numpy as jnp
    out = []
    for x in jax.tree_util.tree_leaves(t):
        if isinstance(x, (bool, int, float)):
            x = jnp.asarray(x)
        out.append(np.asarray(x))
    return out


def snap(t):
    return [(a.dtype.str, a.shape, a.tobytes()) for a in leaves(t)]


def close(a, b):
    """exact for ints/bools, 1e-5 relative for floats; structure, shapes and dtypes must match"""
    la, lb = leaves(a), leaves(b)
    if len(la) != len(lb):
        return "number of leaves %d vs %d" % (len(la), len(lb))
    for i, (x, y) in enumerate(zip(la, lb)):
        if x.shape != y.shape or x.dtype != y.dtype:
            return "leaf %d: %s%s vs %s%s" % (i, x.dtype, x.shape, y.dtype, y.shape)
        if np.issubdtype(x.dtype, np.floating):
            if not np.allclose(x, y, rtol=1e-5, atol=1e-6, equal_nan=True):
                return "leaf %d (float) differs by %g" % (i, float(np.max(np.abs(x - y))))
        elif x.tobytes() != y.tobytes():
            return "leaf %d (%s) differs" % (i, x.dtype)
    return None


def strip(ts):
    return ts.replace(extras={k: v for k, v in (ts.extras or {}).items()}) if ts.extras is not None else ts


def _generator_class(env):
    g = getattr(env, "generator", None)
    return type(g).__name__ if g is not None else "-"


def aliasing(kit, cfg, r):
    """Values returned EARLIER must not change (or become unusable) because of LATER calls: an eager reset and an eager step are
    kept, then reset / step are traced again under fresh jit and vmap wrappers on the same environment object, then the kept values
    are read again.  An environment (generator, reward function, observer) that hands out an object it also keeps and writes to
    -- e.g. a generator returning its stored State, whose fields reset then assigns -- is exposed here: the kept value changes, or
    holds leaked tracers (reading it raises)."""
    import jax
    import jax.numpy as jnp
    name = kit.name
    env = cfg["make"]()          # an environment object of its own: nothing else has been traced through it yet
    key = jax.random.PRNGKey(kit.seed * 31 + 5)
    r.evaluations += 1
    r.count("mode:aliasing:" + _generator_class(env))
    try:
        s0, ts0 = env.reset(key)                                  # op-by-op
        snap0 = snap((s0, ts0.observation, ts0.reward, ts0.discount, ts0.step_type))
        a = env.action_spec.generate_value()
        keys = jax.random.split(key, 2)
        jax.jit(env.reset)(key)                                   # traces reset
        jax.jit(jax.vmap(env.reset))(keys)                        # traces it again under vmap
        s1, ts1 = jax.jit(env.step)(s0, a)
        jax.jit(env.reset)(jax.random.PRNGKey(7))
        again = snap((s0, ts0.observation, ts0.reward, ts0.discount, ts0.step_type))
        s2, ts2 = env.reset(key)                                  # the same call once more, op-by-op
        d = close((s2, ts2.observation), (jax.tree_util.tree_map(jnp.asarray, s0), ts0.observation))
    except Exception as e:                                        # e.g. UnexpectedTracerError: a kept value holds leaked tracers
        kit.fail(["C02"], "%s: a value returned by an earlier reset became unusable after later (traced) calls on the same environment: %s"
                 % (name, type(e).__name__), dict(cfg=cfg["label"], op="aliasing", generator=_generator_class(env)),
                 dict(error=str(e)[:300], seed=kit.seed))
        return
    if again != snap0:
        kit.fail(["C02"], "%s: a value returned by an earlier reset was changed by later calls on the same environment" % name,
                 dict(cfg=cfg["label"], op="aliasing", generator=_generator_class(env)), dict(seed=kit.seed))
    if d:
        kit.fail(["C02"], "%s: the same reset call gives a different result after other calls" % name,
                 dict(cfg=cfg["label"], op="aliasing", generator=_generator_class(env)), dict(diff=d, seed=kit.seed))


def analyze(kit):
    import jax
    import jax.numpy as jnp
    name = kit.name
    r = kit.res["C02"]
    # aliasing between returned values and hidden state: one configuration per distinct generator class
    seen = set()
    for cfg in sorted(kit.configs(), key=lambda c: c["steps"]):
        try:
            gc = _generator_class(kit.env(cfg))
        except Exception:
            continue
        if gc in seen:
            continue
        seen.add(gc)
        aliasing(kit, cfg, r)
    cfgs = [c for c in kit.configs() if c["steps"] >= 4]
    cfgs.sort(key=lambda c: c["steps"])
    cfgs = cfgs[:1] + (cfgs[-1:] if len(cfgs) > 1 and kit.tier != "quick" else [])
    for cfg in cfgs:
        env = kit.env(cfg)
        sampler = R.make_sampler(env)
        jsample = jax.jit(lambda k, o: sampler(k, o, 0.2))
        jreset, jstep = jax.jit(env.reset), jax.jit(env.step)
        key = jax.random.PRNGKey(kit.seed * 17 + 2)
        T = 8 if kit.tier == "quick" else 24
        # reference trajectory (jit), step by step
        s, ts = jreset(key)
        traj = [(s, ts)]
        acts = []
        for t in range(T):
            a = jsample(jax.random.fold_in(key, t), ts.observation)
            s, ts = jstep(s, a)
            traj.append((s, ts))
            acts.append(a)

        def check(mode, got, exp, where):
            r.evaluations += 1
            r.count("mode:" + mode)
            d = close((got[0], got[1].observation, got[1].reward, got[1].discount, got[1].step_type),
                      (exp[0], exp[1].observation, exp[1].reward, exp[1].discount, exp[1].step_type))
            if d:
                kit.fail(["C02"], "%s: %s execution differs from the reference (jit) result" % (name, mode),
                         dict(cfg=cfg["label"], op="mode-" + mode), dict(where, diff=d, seed=kit.seed))

        # ---- eager (op-by-op), with argument immutability, on the first steps
        n_eager = 2 if kit.tier == "quick" else 4
        before = snap(key)
        got = env.reset(key)
        check("eager-reset", got, traj[0], dict(t=0))
        if snap(key) != before:
            kit.fail(["C02"], "reset modified its key argument", dict(cfg=cfg["label"], op="mutates-args"), dict(seed=kit.seed))
        for t in range(n_eager):
            s0, a0 = traj[t][0], acts[t]
            b_s, b_a = snap(s0), snap(a0)
            got = env.step(s0, a0)
            check("eager-step", got, traj[t + 1], dict(t=t))
            r.evaluations += 1
            if snap(s0) != b_s or snap(a0) != b_a:
                kit.fail(["C02"], "step modified its arguments", dict(cfg=cfg["label"], op="mutates-args"), dict(t=t, seed=kit.seed))
        # ---- repetition, unrelated calls in between (call history), different order
        other = jreset(jax.random.PRNGKey(kit.seed + 991))
        for t in (T - 1, 0, T // 2):
            jstep(other[0], acts[(t + 1) % T])
            check("repeat-after-other-calls", jstep(traj[t][0], acts[t]), traj[t + 1], dict(t=t))
        check("repeat-reset", jreset(key), traj[0], dict(t=0))
        # ---- a fresh instance with the same configuration
        env2 = cfg["make"]()
        j2r, j2s = jax.jit(env2.reset), jax.jit(env2.step)
        check("fresh-instance-reset", j2r(key), traj[0], dict(t=0))
        for t in (0, T // 2, T - 1):
            check("fresh-instance-step", j2s(traj[t][0], acts[t]), traj[t + 1], dict(t=t))
        # ---- vmap over batch sizes 1, 2, 7: element i equals the per-instance result
        for B in (1, 2, 7):
            idx = [(3 * i + B) % T for i in range(B)]
            S = jax.tree_util.tree_map(lambda *xs: jnp.stack(xs), *[traj[i][0] for i in idx])
            A = jnp.stack([acts[i] for i in idx])
            S2, TS2 = jax.jit(jax.vmap(env.step))(S, A)
            for j, i in enumerate(idx):
                check("vmap-step-B%d" % B, jax.tree_util.tree_map(lambda x: x[j], (S2, TS2)), traj[i + 1], dict(t=i, batch=B, index=j))
            keys = jax.random.split(jax.random.PRNGKey(kit.seed + B), B)
            S0, TS0 = jax.jit(jax.vmap(env.reset))(keys)
            for j in range(B):
                check("vmap-reset-B%d" % B, jax.tree_util.tree_map(lambda x: x[j], (S0, TS0)), jreset(keys[j]), dict(batch=B, index=j))
        # ---- scan of lengths 1, 5, T equals the step-by-step loop
        for L in sorted({1, min(5, T), T}):
            def body(s, a):
                s2, ts2 = env.step(s, a)
                return s2, (s2, ts2.observation, ts2.reward, ts2.discount, ts2.step_type)
            sL, ys = jax.jit(lambda s, A: jax.lax.scan(body, s, A))(traj[0][0], jnp.stack(acts[:L]))
            r.evaluations += 1
            r.count("mode:scan-L%d" % L)
            exp = jax.tree_util.tree_map(lambda *xs: jnp.stack(xs), *[(traj[i + 1][0], traj[i + 1][1].observation, traj[i + 1][1].reward,
                                                                        traj[i + 1][1].discount, traj[i + 1][1].step_type) for i in range(L)])
            d = close(ys, exp) or close(sL, traj[L][0])
            if d:
                kit.fail(["C02"], "%s: lax.scan rollout differs from the step-by-step loop" % name, dict(cfg=cfg["label"], op="mode-scan"),
                         dict(length=L, diff=d, seed=kit.seed))
        # ---- supporting: no effects / callbacks in the traced programs
        for fn, args, what in ((env.step, (traj[0][0], acts[0]), "step"), (env.reset, (key,), "reset")):
            jp = jax.make_jaxpr(fn)(*args)
            txt = str(jp)
            r.evaluations += 1
            if jp.effects or "callback" in txt:
                kit.fail(["C02"], "%s: traced %s has side effects or a host callback" % (name, what), dict(cfg=cfg["label"], op="effects"),
                         dict(effects=str(jp.effects)))
        r.traces += 1
        r.distinct.add((name, cfg["label"]))
        for t in range(T):
            r.distinct.add((name, cfg["label"], t))
        if len(r.samples) < 2:
            r.samples.append(dict(env=name, cfg=cfg["label"], steps=T, step_types=[int(x[1].step_type) for x in traj],
                                  modes=["eager", "repeat", "history", "fresh-instance", "vmap B=1,2,7", "scan L=1,5,T"]))
