def warm(tier, seed):
    """Fill the trace cache: every (environment, stage) analysis in parallel, then the generic property modules."""
    import importlib
    import pkgutil
    from harness import envkit, props
    try:
        r = envkit.collect(None, tier, seed, use_cache=True)
        print("warmed all environment stages (%d crashed)" % len(r.failures))
    except Exception as e:
        print("warm of environment stages failed", repr(e)[:300])
    for m in sorted(pkgutil.iter_modules(props.__path__), key=lambda m: m.name):
        mod = importlib.import_module("harness.props." + m.name)
        if hasattr(mod, "analyze"):
            try:
                mod.analyze(tier, seed, use_cache=True)
                print("warmed", m.name)
            except Exception as e:
                print("warm failed", m.name, repr(e)[:300])
