def warm(tier, seed):
    """Fill the trace cache for every property module that has an analysis."""
    import importlib
    import pkgutil
    from harness import props
    for m in sorted(pkgutil.iter_modules(props.__path__), key=lambda m: m.name):
        mod = importlib.import_module("harness.props." + m.name)
        if hasattr(mod, "analyze"):
            try:
                mod.analyze(tier, seed, use_cache=True)
                print("warmed", m.name)
            except Exception as e:
                print("warm failed", m.name, repr(e)[:300])
