"""C02: merged per-environment analyses (harness/generic.py + harness/envs/*.py), one subprocess per environment."""
from harness import core, envkit

TRUSTED = ["Coq 8.16.1 kernel (full .vo build; vm_compute for examples)", "extraction (ExtrOcamlBasic only) + driver.ml",
           "harness encoders (harness/envs/*.py, harness/specenc.py) and the rollout policies (harness/rollout.py)",
           "JAX primitives are MODELLED (Base/JaxIndex.v: gather clamps, scatter drops, negative wrap), PRNG is an oracle "
           "(draws recovered from successor states), float rewards compared as exact dyadic/integral values or within tolerance"]
ASSUMES = ["environments without a Coq model for this property are covered only by the generic verified checkers / not at all "
           "(listed under coverage.not_yet_modelled)", "jit/vmap/scan preserve semantics (C02 checks this separately)"]
RULE = ("C02: one (env, config, step) is one program pair set: the jitted reference against eager, repeat, history, fresh instance, vmap B=1/2/7, scan L=1/5/T. " "every configuration of the catalog (default, minimum sizes, non-square, >1 agents, all shipped generators/reward functions, "
        "time limits 1/2/3/7/default) x reset keys derived from VERIF_SEED x mask-respecting and 35%-uniform policies, rolled out under "
        "jit+vmap through termination; every transition is replayed in the extracted Coq model and the verified boolean checkers are "
        "evaluated on the implementation's own states. distinct = (env, config, policy, episode, step); non-trivial = a real transition "
        "or state of an episode (reset-only records are not counted)")


def analyze(tier, seed, use_cache=True):
    return envkit.collect("C02", tier, seed, use_cache)


def replay(path):
    import json
    d = json.load(open(path))
    print(json.dumps(d, indent=1)[:6000])
    fs = d.get("failures") or []
    if not fs:
        return 1
    envs = sorted({f["where"].get("env") for f in fs if f["where"].get("env")})
    seed = fs[0]["replay"].get("seed", 0)
    r = envkit.collect("C02", "quick", seed, use_cache=False, envs=envs or None)
    for f in r.failures[:10]:
        print("REPRODUCED:", f["what"], f["where"])
    return 1 if r.failures else 0
