"""C11: merged per-environment analyses (harness/generic.py + harness/envs/*.py), one subprocess per environment."""
from harness import core, envkit

TRUSTED = ["Coq 8.16.1 kernel (full .vo build; vm_compute for examples)", "extraction (ExtrOcamlBasic only) + driver.ml",
           "harness encoders (harness/envs/*.py, harness/specenc.py) and the rollout policies (harness/rollout.py)",
           "JAX primitives are MODELLED (Base/JaxIndex.v: gather clamps, scatter drops, negative wrap), PRNG is an oracle "
           "(draws recovered from successor states), float rewards compared as exact dyadic/integral values or within tolerance"]
ASSUMES = ["environments without a Coq model for this property are covered only by the generic verified checkers / not at all "
           "(listed under coverage.not_yet_modelled)", "jit/vmap/scan preserve semantics (C02 checks this separately)"]
RULE = ("every configuration of the catalog (default, minimum sizes, non-square, >1 agents, all shipped generators/reward functions, "
        "time limits 1/2/3/7/default) x reset keys derived from VERIF_SEED x mask-respecting and 35%-uniform policies, rolled out under "
        "jit+vmap through termination; every transition is replayed in the extracted Coq model and the verified boolean checkers are "
        "evaluated on the implementation's own states. distinct = (env, config, policy, episode, step); non-trivial = a real transition "
        "or state of an episode (reset-only records are not counted)")


def make_path(res, seed):
    """The time limit a caller passes through `jumanji.make(id, time_limit=k)` must be the one the environment uses -- also for ids
    that are REGISTERED with a default time_limit (the registered keyword arguments are overridden by the caller's).  Construction only,
    plus one rollout to the limit on the id registered with a time_limit."""
    import jax
    import jax.numpy as jnp
    import jumanji
    from jumanji import registration as reg
    for env_id, spec in sorted(reg._REGISTRY.items()):
        if env_id.startswith("Sokoban"):          # needs its dataset (absent offline)
            continue
        import inspect
        try:
            cls = reg.load(spec.entry_point)
            takes = "time_limit" in inspect.signature(cls.__init__).parameters
        except Exception:
            takes = False
        if not takes:
            continue
        for k in (3, 7):
            res.evaluations += 1
            res.distinct.add(("make-path", env_id, k))
            try:
                env = jumanji.make(env_id, time_limit=k)
            except Exception as e:
                res.fail("jumanji.make(%r, time_limit=%d) raised %s" % (env_id, k, type(e).__name__), dict(op="make-limit", env=env_id), dict(k=k, error=str(e)[:200]))
                continue
            if int(env.time_limit) != k:
                res.fail("jumanji.make(id, time_limit=k) builds an environment whose time_limit is not k (registered default kept?)",
                         dict(op="make-limit", env=env_id), dict(k=k, got=int(env.time_limit), registered_kwargs=sorted(spec.kwargs)))
            elif "time_limit" in spec.kwargs and k == 3:
                # run to the limit: LAST no later than step k
                s, ts = jax.jit(env.reset)(jax.random.PRNGKey(seed))
                step = jax.jit(env.step)
                last_at = None
                for t in range(1, k + 2):
                    s, ts = step(s, env.action_spec.generate_value())
                    if int(ts.step_type) == 2:
                        last_at = t
                        break
                if last_at is None or last_at > k:
                    res.fail("episode built through make(id, time_limit=k) does not end by step k", dict(op="make-limit-rollout", env=env_id), dict(k=k, last_at=last_at))


def analyze(tier, seed, use_cache=True):
    res = envkit.collect("C11", tier, seed, use_cache)
    try:
        make_path(res, seed)
    except Exception:
        import traceback
        res.fail("make-path analysis raised", dict(op="harness-exception", env="registration"), dict(trace=traceback.format_exc()[-1500:]))
    return res


def replay(path):
    import json
    d = json.load(open(path))
    print(json.dumps(d, indent=1)[:6000])
    fs = d.get("failures") or []
    if not fs:
        return 1
    envs = sorted({f["where"].get("env") for f in fs if f["where"].get("env")})
    seed = fs[0]["replay"].get("seed", 0)
    r = envkit.collect("C11", "quick", seed, use_cache=False, envs=envs or None)
    for f in r.failures[:10]:
        print("REPRODUCED:", f["what"], f["where"])
    return 1 if r.failures else 0
