"""C16: jumanji.specs against the model in coq/Base/Spec.v (random specs x boundary values x every method,
plus the real observation/action specs of every environment)."""
import pickle

import numpy as np

from harness import core, enc, specenc

TRUSTED = ["Coq 8.16.1 kernel", "extraction (ExtrOcamlBasic only) + driver.ml",
           "harness/specenc.py (spec/value encoders; floats -> order-preserving float32 keys, NaN sentinel)",
           "NumPy broadcasting, jnp.asarray dtype canonicalisation, gymnasium/dm_env membership, pickle, inspect-based "
           "_get_constructor_kwargs are MODELLED (Base/Spec.v), tied by this correspondence"]
ASSUMES = ["equality/transitivity theorems are per kind (same Python class), as the property states",
           "nested specs with different field sets raise inside dm-tree (modelled as None), see DESIGN.md"]
RULE = ("random Array/Bounded/Discrete/MultiDiscrete/nested specs (rank 0-3, size-0, 7 dtypes, scalar and per-element bounds, names) "
        "x values valid / at each bound / one ulp or unit outside / wrong shape / wrong dtype / NaN / inf; every method "
        "(validate, generate_value, ==, replace, pickle, gym+dm_env conversion, gym sampling); plus all env specs. "
        "distinct = (method, spec encoding hash, value kind); non-trivial = spec has rank>=1 or is nested or bounded")
DTS = ["bool", "int8", "int16", "int32", "uint8", "float16", "float32"]
INT_DTS = ["int8", "int16", "int32", "uint8"]


def rshape(rng):
    rank = int(rng.integers(0, 4))
    return tuple(int(rng.integers(0, 3)) if rng.random() < 0.12 else int(rng.integers(1, 4)) for _ in range(rank))


def rname(rng):
    return "" if rng.random() < 0.3 else "".join(rng.choice(list("abcXY_1")) for _ in range(int(rng.integers(1, 5))))


def rbound_array(rng, shape, dt, lo=None):
    """a bound broadcastable to shape: scalar, full shape, or with some dims squeezed to 1 / leading dims dropped"""
    mode = rng.integers(0, 4)
    if mode == 0 or len(shape) == 0:
        bshape = ()
    elif mode == 1:
        bshape = shape
    elif mode == 2:
        bshape = tuple(1 if rng.random() < 0.5 else d for d in shape)
    else:
        bshape = shape[int(rng.integers(0, len(shape))):]
    n = int(np.prod(bshape)) if bshape else 1
    if dt == "bool":
        v = np.zeros(n, bool) if lo is None else np.ones(n, bool)
    elif dt.startswith("uint"):
        v = rng.integers(0, 4, n) if lo is None else rng.integers(4, 9, n)
    elif dt.startswith("int"):
        v = rng.integers(-5, 1, n) if lo is None else rng.integers(1, 6, n)
    else:
        v = (rng.integers(-8, 1, n) / 4.0) if lo is None else (rng.integers(1, 9, n) / 4.0)
        if rng.random() < 0.1:
            v = np.full(n, -np.inf if lo is None else np.inf)
    if dt in ("int32", "float32") and rng.random() < 0.2:
        # large-magnitude bounds: neighbouring values are RELATIVELY close (a tolerance-based comparison would confuse them)
        v = np.asarray(v, np.float64) * float(10 ** int(rng.integers(5, 9)))
    return np.asarray(v, dt).reshape(bshape)


def rspec(rng, depth=0):
    import jax.numpy as jnp
    from jumanji import specs
    r = rng.random()
    if depth < 2 and r < 0.15:
        k = int(rng.integers(1, 4))
        kids = {"f%d" % i: rspec(rng, depth + 1) for i in range(k)}
        return specs.Spec(mk_obj, rname(rng), **kids)
    kind = int(rng.integers(0, 4))
    if kind == 0:
        return specs.Array(rshape(rng), DTS[int(rng.integers(0, len(DTS)))], rname(rng))
    if kind == 1:
        dt = DTS[int(rng.integers(0, len(DTS)))]
        sh = rshape(rng)
        lo = rbound_array(rng, sh, dt)
        hi = rbound_array(rng, sh, dt, lo=lo)
        return specs.BoundedArray(sh, dt, lo, hi, rname(rng))
    def edge_count(dt):
        """a number of values at / next to the top of the dtype's range (num_values - 1 = iinfo.max is still representable)"""
        top = int(np.iinfo(np.dtype(dt)).max) if np.dtype(dt).itemsize < 4 else 2 ** 20
        return [top + 1, top, top - 1][int(rng.integers(0, 3))]
    if kind == 2:
        dt = INT_DTS[int(rng.integers(0, 4))] if rng.random() < 0.5 else "int32"
        nv = edge_count(dt) if rng.random() < 0.25 else int(rng.integers(1, 7))
        return specs.DiscreteArray(nv, dt, rname(rng))
    sh = rshape(rng)
    while 0 in sh:
        sh = rshape(rng)
    dt = INT_DTS[int(rng.integers(0, 4))] if rng.random() < 0.5 else "int32"
    nvs = np.asarray(rng.integers(1, 5, size=sh), np.int64)
    if rng.random() < 0.3:      # some components exactly fill (or nearly fill) the dtype's range
        flat = nvs.reshape(-1)
        for i in rng.permutation(len(flat))[:max(1, len(flat) // 2)]:
            flat[int(i)] = edge_count(dt)
        nvs = flat.reshape(sh)
    return specs.MultiDiscreteArray(jnp.asarray(nvs, jnp.int32), dt, rname(rng))


def leaf_bounds(sp):
    from jumanji import specs
    if isinstance(sp, specs.BoundedArray):
        return (np.broadcast_to(np.asarray(sp.minimum), sp.shape), np.broadcast_to(np.asarray(sp.maximum), sp.shape))
    return None


def rvalue(rng, sp, kind):
    """a numpy value for leaf spec sp of the requested kind"""
    dt = np.dtype(sp.dtype)
    b = leaf_bounds(sp)
    n = int(np.prod(sp.shape)) if sp.shape else 1
    if b is None:
        lo = np.full(sp.shape, -3, dtype=np.float64) if dt.kind != "u" and dt.kind != "b" else np.zeros(sp.shape)
        hi = np.full(sp.shape, 3, dtype=np.float64) if dt.kind != "b" else np.ones(sp.shape)
    else:
        lo, hi = b[0].astype(np.float64), b[1].astype(np.float64)
    lo_f = np.where(np.isfinite(lo), lo, -7.0)
    hi_f = np.where(np.isfinite(hi), hi, 7.0)
    if dt.kind == "f":
        base = lo_f + (hi_f - lo_f) * rng.integers(0, 5, size=sp.shape) / 4.0
    else:
        base = np.floor(lo_f + (hi_f - lo_f + 1) * rng.random(size=sp.shape)).clip(lo_f, hi_f)
    v = np.asarray(base).astype(dt)
    if kind == "valid":
        return v
    if kind == "at_lo":
        return np.asarray(lo_f).astype(dt)
    if kind == "at_hi":
        return np.asarray(hi_f).astype(dt)
    if kind in ("below", "above") and n > 0 and dt.kind != "b":
        idx = tuple(int(rng.integers(0, d)) for d in sp.shape)
        v = np.array(v)
        if kind == "below":
            x = np.asarray(lo_f).astype(dt)[idx]
            v[idx] = _next(x, -1, dt) if dt.kind == "f" else (x - 1 if not (dt.kind == "u" and x == 0) else x)
        else:
            x = np.asarray(hi_f).astype(dt)[idx]
            v[idx] = _next(x, +1, dt) if dt.kind == "f" else x + 1
        return v
    if kind == "nan" and dt.kind == "f" and n > 0:
        v = np.array(v)
        v.reshape(-1)[int(rng.integers(0, n))] = np.nan
        return v
    if kind == "inf" and dt.kind == "f" and n > 0:
        v = np.array(v)
        v.reshape(-1)[int(rng.integers(0, n))] = np.inf if rng.random() < 0.5 else -np.inf
        return v
    if kind == "shape":
        return np.zeros(sp.shape + (1,), dt) if rng.random() < 0.5 else np.zeros(sp.shape[1:] if sp.shape else (2,), dt)
    if kind == "dtype":
        other = [d for d in DTS if np.dtype(d) != dt]
        return v.astype(other[int(rng.integers(0, len(other)))])
    return v


def _next(x, sign, dt):
    """next float in direction sign; never a subnormal (XLA CPU flushes subnormals to zero)"""
    y = np.nextafter(x, dt.type(sign * np.inf))
    tiny = np.finfo(dt).tiny
    if y != 0 and abs(float(y)) < float(tiny):
        y = dt.type(sign * tiny)
    return y


KINDS = ["valid", "at_lo", "at_hi", "below", "above", "nan", "inf", "shape", "dtype"]


def rvalue_tree(rng, sp, kind):
    from jumanji import specs
    if isinstance(sp, specs.Array):
        return rvalue(rng, sp, kind)
    kids = specenc.spec_children(sp)
    bad = int(rng.integers(0, len(kids)))
    return {k: rvalue_tree(rng, s, kind if i == bad else "valid") for i, (k, s) in enumerate(kids)}


class DictObj:  # Spec.validate wants a named tuple or an object with __dict__
    def __init__(self, d):
        self.__dict__.update(d)


def mk_obj(**kw):
    return DictObj(kw)


def wrap(v):
    return DictObj({k: wrap(x) for k, x in v.items()}) if isinstance(v, dict) else v


def is_leaf_spec(sp):
    from jumanji import specs
    return isinstance(sp, specs.Array)


def safe(f):
    try:
        return ("ok", f())
    except (ValueError, TypeError, AssertionError, KeyError, AttributeError) as e:
        return ("raises", type(e).__name__)


def _tiny_step(x, sign, dt):
    """the nearest representable neighbour of x in dtype dt, avoiding subnormals (XLA on CPU flushes them to zero, so a
    subnormal bound IS zero for every jnp comparison; not a difference the property can be about)"""
    x = np.asarray(x, dt)
    y = np.nextafter(x, np.asarray(sign * np.inf, dt))
    tiny = np.finfo(dt).tiny
    if abs(float(y)) < float(tiny):
        y = np.asarray(sign * float(tiny) * 4, dt)
    return y


def mutate_spec(rng, sp):
    """same-kind spec differing in exactly one attribute (or an identical rebuild)"""
    import jax.numpy as jnp
    from jumanji import specs
    what = ["same", "shape", "dtype", "name", "bounds", "num"][int(rng.integers(0, 6))]
    try:
        if isinstance(sp, specs.DiscreteArray):
            if what == "num":
                return what, specs.DiscreteArray(sp.num_values + 1, sp.dtype, sp.name)
            if what == "dtype":
                return what, specs.DiscreteArray(sp.num_values, jnp.int8 if sp.dtype != jnp.int8 else jnp.int16, sp.name)
            if what == "name":
                return what, specs.DiscreteArray(sp.num_values, sp.dtype, sp.name + "z")
            return "same", specs.DiscreteArray(sp.num_values, sp.dtype, sp.name)
        if isinstance(sp, specs.MultiDiscreteArray):
            nv = np.asarray(sp.num_values)
            if what == "num":
                nv2 = nv.copy()
                nv2.reshape(-1)[int(rng.integers(0, nv2.size))] += 1
                return what, specs.MultiDiscreteArray(jnp.asarray(nv2), sp.dtype, sp.name)
            if what == "shape":
                nv2 = np.broadcast_to(nv.reshape(-1)[0], nv.shape + (2,)) if rng.random() < 0.5 else np.full((int(rng.integers(1, 4)),), int(nv.reshape(-1)[0]))
                return what, specs.MultiDiscreteArray(jnp.asarray(nv2, jnp.int32), sp.dtype, sp.name)
            if what == "dtype":
                return what, specs.MultiDiscreteArray(sp.num_values, jnp.int8 if sp.dtype != jnp.int8 else jnp.int16, sp.name)
            if what == "name":
                return what, specs.MultiDiscreteArray(sp.num_values, sp.dtype, sp.name + "z")
            return "same", specs.MultiDiscreteArray(jnp.asarray(nv), sp.dtype, sp.name)
        if isinstance(sp, specs.BoundedArray):
            lo, hi = np.asarray(sp.minimum), np.asarray(sp.maximum)
            if what == "bounds" and np.dtype(sp.dtype).kind != "b":
                if rng.random() < 0.5:  # same bounds, different representation (broadcast)
                    return "bounds-bcast", specs.BoundedArray(sp.shape, sp.dtype, np.broadcast_to(lo, sp.shape), hi, sp.name)
                hi2 = np.array(np.broadcast_to(hi, sp.shape))
                lo2 = np.array(np.broadcast_to(lo, sp.shape))
                if hi2.size:
                    j = int(rng.integers(0, hi2.size))
                    if np.dtype(sp.dtype).kind == "f" and rng.random() < 0.6:
                        # the smallest possible difference: one unit in the last place of ONE element of one bound
                        if rng.random() < 0.5 and np.isfinite(hi2.reshape(-1)[j]):
                            hi2.reshape(-1)[j] = _tiny_step(hi2.reshape(-1)[j], +1, sp.dtype)   # one ulp IN THE SPEC'S dtype
                            return "bounds-ulp", specs.BoundedArray(sp.shape, sp.dtype, lo, hi2, sp.name)
                        if np.isfinite(lo2.reshape(-1)[j]):
                            lo2.reshape(-1)[j] = _tiny_step(lo2.reshape(-1)[j], -1, sp.dtype)
                            return "bounds-ulp", specs.BoundedArray(sp.shape, sp.dtype, lo2, hi, sp.name)
                    hi2.reshape(-1)[j] += 1
                    if hi2.reshape(-1)[j] != np.broadcast_to(hi, sp.shape).reshape(-1)[j]:
                        return what, specs.BoundedArray(sp.shape, sp.dtype, lo, hi2, sp.name)
            if what == "shape":
                return what, specs.BoundedArray(sp.shape + (1,), sp.dtype, lo[..., None] if lo.ndim else lo, hi[..., None] if hi.ndim else hi, sp.name)
            if what == "dtype" and np.dtype(sp.dtype).kind == "i":
                return what, specs.BoundedArray(sp.shape, "int8" if np.dtype(sp.dtype) != np.int8 else "int16", lo, hi, sp.name)
            if what == "name":
                return what, specs.BoundedArray(sp.shape, sp.dtype, lo, hi, sp.name + "z")
            return "same", specs.BoundedArray(sp.shape, sp.dtype, lo, hi, sp.name)
        if isinstance(sp, specs.Array):
            if what == "shape":
                return what, specs.Array(sp.shape + (2,), sp.dtype, sp.name)
            if what == "dtype":
                return what, specs.Array(sp.shape, "int8" if np.dtype(sp.dtype) != np.int8 else "int16", sp.name)
            if what == "name":
                return what, specs.Array(sp.shape, sp.dtype, sp.name + "z")
            return "same", specs.Array(sp.shape, sp.dtype, sp.name)
        kids = dict(sp._specs)
        k = sorted(kids)[int(rng.integers(0, len(kids)))]
        w, kids[k] = mutate_spec(rng, kids[k])
        return "child-" + w, specs.Spec(mk_obj, sp.name, **kids)
    except (ValueError, TypeError):
        return "same", sp


def env_specs():
    from harness import rollout as R
    out = []
    for e in R.ENVS:
        for c in R.catalog(e, "quick")[:2]:
            try:
                env = c["make"]()
            except Exception:
                continue
            out.append((e + "/" + c["label"], "observation", env.observation_spec))
            out.append((e + "/" + c["label"], "action", env.action_spec))
            out.append((e + "/" + c["label"], "reward", env.reward_spec))
            out.append((e + "/" + c["label"], "discount", env.discount_spec))
    return out


def analyze(tier, seed, use_cache=True):
    return core.cached(("c16", tier, seed), lambda: _analyze(tier, seed), use_cache)


def _analyze(tier, seed):
    import jax.numpy as jnp
    from jumanji import specs
    rng = np.random.default_rng(seed + 1600)
    res = core.Result()
    N = 250 if tier == "quick" else 2500
    calls, expect, meta = [], [], []

    def add(entry, args, exp, m):
        calls.append((entry, args))
        expect.append(exp)
        meta.append(m)

    def nontrivial(sp):
        return (not is_leaf_spec(sp)) or len(getattr(sp, "shape", ())) >= 1 or isinstance(sp, specs.BoundedArray)

    pool = [("rand", "", rspec(rng)) for _ in range(N)] + env_specs()
    for origin, role, sp in pool:
        e_sp = specenc.enc_spec(sp)
        h = hash(tuple(e_sp))
        res.count("spec-kind:" + type(sp).__name__)
        # generate_value is valid (law on the implementation) and equals the model's
        g = safe(lambda: sp.generate_value())
        res.evaluations += 1
        if g[0] != "ok":
            res.fail("generate_value raised", dict(op="generate", origin=origin, role=role), dict(spec=repr(sp)[:300], err=g[1]))
            continue
        gv = g[1] if is_leaf_spec(sp) else g[1]
        v = safe(lambda: sp.validate(gv))
        if v[0] != "ok":
            res.fail("validate rejects generate_value()", dict(op="gen-valid", origin=origin, role=role), dict(spec=repr(sp)[:300], err=v[1]))
        add("spec_generate_io", e_sp, [1] + specenc.enc_value(gv), dict(op="generate", origin=origin, role=role, spec=repr(sp)[:200]))
        if nontrivial(sp):
            res.distinct.add(("generate", h))
        # structure mismatch (nested specs): a value with a field the spec does not declare, or lacking a declared field, must be
        # rejected -- "validate accepts exactly the values whose structure ... matches"
        if not is_leaf_spec(sp):
            base = rvalue_tree(rng, sp, "valid")
            if isinstance(base, dict) and base:
                def at_level(d, f, depth):
                    """apply f to the dict at a random nesting level"""
                    subs = [k for k, x in d.items() if isinstance(x, dict) and x]
                    if subs and depth < 2 and rng.random() < 0.5:
                        k = subs[int(rng.integers(0, len(subs)))]
                        return {kk: (at_level(x, f, depth + 1) if kk == k else x) for kk, x in d.items()}
                    return f(d)
                first_leaf = lambda d: next(iter(d.values()))
                variants = [("extra-field", at_level(base, lambda d: dict(d, zz_not_in_spec=first_leaf(d)), 0)),
                            ("missing-field", at_level(base, lambda d: {k: x for k, x in list(d.items())[1:]}, 0))]
                for vk, vv in variants:
                    r = safe(lambda: sp.validate(wrap(vv)))
                    if r[0] != "raises":
                        try:
                            r = ("ok", None) if r[0] == "ok" else r
                        except Exception:
                            pass
                    res.evaluations += 1
                    res.count("validate-structure:" + vk)
                    res.distinct.add(("validate-structure", h, vk))
                    if r[0] == "ok":
                        res.fail("nested Spec.validate accepts a value whose structure does not match the spec (%s)" % vk,
                                 dict(op="validate-structure", kind=vk, origin=origin, role=role), dict(spec=repr(sp)[:300], seed=seed))
        # validate on values of every kind
        for kind in (KINDS if origin == "rand" else ["valid", "at_lo", "at_hi", "above", "below", "shape", "dtype"]):
            val = rvalue_tree(rng, sp, kind)
            wv = wrap(val)
            r = safe(lambda: sp.validate(wv))
            exp_ok = 1 if r[0] == "ok" else 0
            try:
                e_val = specenc.enc_value(val)
            except Exception:
                continue
            add("spec_validate_io", e_sp + e_val, [exp_ok, 1], dict(op="validate:" + kind, origin=origin, role=role, spec=repr(sp)[:200], value=repr(val)[:200]))
            res.count("validate:%s:%s" % (kind, "ok" if exp_ok else "raises"))
            if nontrivial(sp):
                res.distinct.add(("validate", h, kind))
            # conversions (leaf specs): valid & NaN-free => member of gym space and of dm_env spec
            if is_leaf_spec(sp) and origin == "rand":
                a = np.asarray(jnp.asarray(val))
                cv = safe(lambda: (specs.jumanji_specs_to_gym_spaces(sp), specs.jumanji_specs_to_dm_env_specs(sp)))
                if cv[0] != "ok":
                    # gymnasium refuses e.g. Box(-inf, inf, dtype=uint8/bool): no converted space exists (third-party)
                    res.count("conversion-unsupported:%s:%s" % (type(sp).__name__, np.dtype(sp.dtype).kind))
                    continue
                gs, ds = cv[1]
                res.evaluations += 1
                if exp_ok and not np.isnan(a.astype(np.float64)).any():
                    if not gs.contains(a if not isinstance(sp, specs.DiscreteArray) else a.item()):
                        res.fail("valid value not in converted gym space", dict(op="to-gym", kind=kind), dict(spec=repr(sp)[:300], value=repr(val)[:200]))
                    d = safe(lambda: ds.validate(a))
                    if d[0] != "ok":
                        res.fail("valid value rejected by converted dm_env spec", dict(op="to-dm", kind=kind), dict(spec=repr(sp)[:300], value=repr(val)[:200]))
        # samples of the converted gym space are valid for the original (action-like: integer or float leaf)
        if is_leaf_spec(sp) and np.dtype(sp.dtype).kind in "iuf" and 0 not in sp.shape:
            cv = safe(lambda: specs.jumanji_specs_to_gym_spaces(sp))
            gs = cv[1] if cv[0] == "ok" else None
            if gs is not None:
                gs.seed(int(rng.integers(0, 10 ** 6)))
            for _ in range(3 if gs is not None else 0):
                s = safe(lambda: gs.sample())
                if s[0] != "ok":
                    break
                res.evaluations += 1
                r = safe(lambda: sp.validate(s[1]))
                if r[0] != "ok" and not (np.dtype(sp.dtype).kind == "f" and not np.isfinite(np.asarray(s[1], np.float64)).all()):
                    cause = "sample-dtype" if np.asarray(jnp.asarray(s[1])).dtype != np.dtype(sp.dtype) else "other"
                    res.fail("gym sample invalid for original spec (%s)" % cause, dict(op="gym-sample", cause=cause, origin=origin, role=role),
                             dict(spec=repr(sp)[:300], sample=repr(s[1])[:200], err=r[1]))
        # equality: reflexive, symmetric, discriminating; vs model
        what, sp2 = mutate_spec(rng, sp)
        for a_, b_, tag in ((sp, sp, "refl"), (sp, sp2, what), (sp2, sp, what + "-sym")):
            r = safe(lambda: a_ == b_)
            exp = [0] if r[0] == "raises" else [1, int(bool(r[1]))]
            add("spec_eqb_io", specenc.enc_spec(a_) + specenc.enc_spec(b_), exp, dict(op="eq:" + tag, origin=origin, role=role, a=repr(a_)[:200], b=repr(b_)[:200]))
            res.count("eq:%s:%s" % (tag.replace("-sym", ""), exp))
            if nontrivial(sp):
                res.distinct.add(("eq", h, tag))
        # pickle + replace() round trips on the implementation, and replace(...) vs model
        pk = safe(lambda: pickle.loads(pickle.dumps(sp)))
        res.evaluations += 1
        if pk[0] != "ok" or specenc.enc_spec(pk[1]) != e_sp:
            res.fail("pickle round trip changes the spec", dict(op="pickle", origin=origin, role=role), dict(spec=repr(sp)[:300]))
        rp = safe(lambda: sp.replace())
        if rp[0] != "ok" or specenc.enc_spec(rp[1]) != e_sp:
            res.fail("replace() changes the spec", dict(op="replace-nil", origin=origin, role=role), dict(spec=repr(sp)[:300]))
        if is_leaf_spec(sp):
            newname = rname(rng) + "q"
            rp = safe(lambda: sp.replace(name=newname))
            if rp[0] == "ok":
                add("spec_replace_io", e_sp + [1, 2] + specenc.enc_name(newname), [1] + specenc.enc_spec(rp[1]), dict(op="replace:name", origin=origin, spec=repr(sp)[:200]))
            if type(sp) in (specs.Array, specs.BoundedArray) and np.dtype(sp.dtype).kind == "i":
                nd = "int8" if np.dtype(sp.dtype) != np.int8 else "int16"
                rp = safe(lambda: sp.replace(dtype=nd))
                if rp[0] == "ok" and type(sp) is specs.Array:
                    add("spec_replace_io", e_sp + [1, 1, enc.dt_code(nd)], [1] + specenc.enc_spec(rp[1]), dict(op="replace:dtype", origin=origin, spec=repr(sp)[:200]))
            if isinstance(sp, specs.DiscreteArray):
                rp = safe(lambda: sp.replace(num_values=sp.num_values + 2))
                if rp[0] == "ok":
                    add("spec_replace_io", e_sp + [1, 5, sp.num_values + 2], [1] + specenc.enc_spec(rp[1]), dict(op="replace:num_values", origin=origin, spec=repr(sp)[:200]))
            if type(sp) is specs.BoundedArray and np.dtype(sp.dtype).kind in "iuf":
                newmax = np.asarray(np.broadcast_to(np.asarray(sp.maximum), sp.shape) + 1).astype(sp.dtype)
                rp = safe(lambda: sp.replace(maximum=newmax))
                if rp[0] == "ok":
                    add("spec_replace_io", e_sp + [1, 4] + specenc.enc_bound(newmax), [1] + specenc.enc_spec(rp[1]), dict(op="replace:maximum", origin=origin, spec=repr(sp)[:200]))
            res.count("replace")
        else:
            kids = specenc.spec_children(sp)
            k0, s0 = kids[0]
            _, s1 = mutate_spec(rng, s0)
            rp = safe(lambda: sp.replace(**{k0: s1}))
            if rp[0] == "ok":
                add("spec_replace_io", e_sp + [1, 7] + specenc.enc_name(k0) + specenc.enc_spec(s1), [1] + specenc.enc_spec(rp[1]), dict(op="replace:field", origin=origin, spec=repr(sp)[:200]))

    outs = core.run_model(calls)
    for (entry, args), exp, got, m in zip(calls, expect, outs, meta):
        res.evaluations += 1
        if entry == "spec_validate_io":
            if got[1] != 1:
                res.fail("constructor-accepted spec is not wf in the model", dict(op="wf", entry=entry), dict(meta=m))
            got, exp = got[:1], exp[:1]
        if got != exp:
            res.fail("model and implementation disagree on %s" % m["op"], dict(op=m["op"], entry=entry, origin=m.get("origin")),
                     dict(meta=m, model=got[:40], impl=exp[:40], seed=seed))
    res.traces = len(calls)
    res.samples = [dict(meta=meta[i], impl=expect[i][:16]) for i in (0, len(calls) // 3, len(calls) // 2, len(calls) - 1)]
    res.xsamples = {k: v[:2] for k, v in core.XSAMPLES.items()}
    return res


def replay(path):
    import json
    d = json.load(open(path))
    print(json.dumps(d, indent=1)[:4000])
    seed = d["failures"][0]["replay"].get("seed", 0) if d.get("failures") else 0
    r = _analyze("quick", seed)
    for f in r.failures[:10]:
        print(f["what"], f["where"])
    return 1 if r.failures else 0
