"""C18: jumanji/registration.py against coq/Model/Registry.v (+ Gen/RegistryData.v re-checked by Props/C18_Shipped.v)."""
import copy

import numpy as np

from harness import core

TRUSTED = ["Coq 8.16.1 kernel + vm_compute (Props/C18_Shipped.v re-checks the value dump of the shipped registry on every build)",
           "extraction (ExtrOcamlBasic only) + driver.ml", "harness/translators/registry_data.py (value dump of _REGISTRY and ENV_NAME_RE.pattern)",
           "Python's `re` (non-greedy name, fullmatch, $), int(), str formatting and dict are MODELLED (Model/Registry.v), tied by this correspondence",
           "`load` (importlib) and the environment constructors are not modelled: 'every shipped id instantiates' is decided by running make() on all ids"]
ASSUMES = ["ids are compared with the model over the ASCII alphabet; Python's \\w/\\d also accept non-ASCII letters/digits — those ids are run on the "
           "implementation only (round-trip law) and counted under input_distribution as non-ascii",
           "version numbers in the correspondence stay below 2^62 (the OCaml driver's integer glue); the theorems hold for all N",
           "Sokoban-v0 needs its dataset (absent in a sealed sandbox): recorded as not instantiated, not an alarm"]
RULE = ("random id strings over the allowed alphabet, with disallowed characters, with/without -v suffix, leading zeros, several -v groups, large versions; "
        "random histories of register/make calls (fresh, duplicate, malformed, version-less ids; kwargs overriding/adding) run on the real registry "
        "(swapped for a fresh dict, restored afterwards) and on the model; all shipped ids instantiated twice and compared (specs + a short episode). "
        "distinct = the id string or the op history; non-trivial = history with >=2 ops or an id with a version suffix")

ALLOWED = "abcXYZ019_:.-v"
BAD = " /@\n\t!+é"


def rand_id(rng):
    kind = ["plain", "versioned", "versioned", "leading0", "multi", "bad", "empty-name", "no-digits", "nonascii", "bigver", "padded"][int(rng.integers(0, 11))]
    name = "".join(ALLOWED[int(rng.integers(0, len(ALLOWED)))] for _ in range(int(rng.integers(1, 7))))
    if kind == "plain":
        return kind, name
    if kind == "versioned":
        return kind, "%s-v%d" % (name, int(rng.integers(0, 30)))
    if kind == "leading0":
        return kind, "%s-v0%d" % (name, int(rng.integers(0, 30)))
    if kind == "multi":
        return kind, "%s-v%d-v%d" % (name, int(rng.integers(0, 9)), int(rng.integers(0, 9)))
    if kind == "bad":
        i = int(rng.integers(0, len(name) + 1))
        s = name[:i] + BAD[int(rng.integers(0, len(BAD) - 1))] + name[i:]
        return kind, s + ("-v%d" % int(rng.integers(0, 9)) if rng.random() < 0.6 else "")
    if kind == "padded":   # a WELL-FORMED id with white space / a line break before or after it (regex `$` matches before a final "\n")
        pad = ["\n", "\n\n", " ", "\r", "\t", "\r\n", "\x0b", "\x0c"][int(rng.integers(0, 8))]
        core_id = "%s-v%d" % (name, int(rng.integers(0, 30)))
        return kind, (core_id + pad) if rng.random() < 0.7 else (pad + core_id)
    if kind == "empty-name":
        return kind, "-v%d" % int(rng.integers(0, 9))
    if kind == "no-digits":
        return kind, name + ["-v", "-vx", "-v1x", "-V1", "v1", "-v-1"][int(rng.integers(0, 6))]
    if kind == "nonascii":
        return kind, name + ["é", "٣"][int(rng.integers(0, 2))] + "-v" + ["1", "٣"][int(rng.integers(0, 2))]
    return kind, "%s-v%d" % (name, int(rng.integers(10 ** 12, 10 ** 17)))


def real_parse(reg, s):
    try:
        n, v = reg.parse_env_id(s)
        return [2, int(v), len(n)] + [ord(c) for c in n]
    except ValueError as e:
        m = str(e)
        if m.startswith("Malformed"):
            return [0]
        if m.startswith("Version missing"):
            # name printed in the message: "got name=<name> and version=None"
            import re as _re
            mm = _re.match(r"Version missing, got name=(.*) and version=None", m, flags=_re.S)
            n = mm.group(1) if mm else ""
            return [1, len(n)] + [ord(c) for c in n]
        return [9]


def enc_str(s):
    return [len(s)] + [ord(c) for c in s]


def analyze(tier, seed, use_cache=True):
    return core.cached(("c18", tier, seed), lambda: _analyze(tier, seed), use_cache)


def _analyze(tier, seed):
    import jumanji
    from jumanji import registration as reg
    rng = np.random.default_rng(seed + 1800)
    res = core.Result()
    N = 400 if tier == "quick" else 4000
    calls, expect, meta = [], [], []
    # ---- parse / format
    seen = set()
    for _ in range(N):
        kind, s = rand_id(rng)
        res.count("id:" + kind)
        r = real_parse(reg, s)
        res.count("parse-result:%d" % r[0])
        if all(ord(c) < 128 for c in s):
            calls.append(("registry_parse_io", [ord(c) for c in s]))
            expect.append(r)
            meta.append(dict(op="parse", id=s, kind=kind))
        else:
            res.count("non-ascii-not-compared-with-model")
        if r[0] == 2:
            name, v = reg.parse_env_id(s)
            back = reg.get_env_id(name, v)
            res.evaluations += 1
            # implementation-side laws: format(parse(id)) parses to the same pair; canonical ids format to themselves
            if reg.parse_env_id(back) != (name, v):
                res.fail("parse(get_env_id(parse(id))) != parse(id)", dict(op="law-roundtrip"), dict(id=s, seed=seed))
            if s.endswith("-v%d" % v) and back != s:
                res.fail("a canonical id does not format back to itself", dict(op="law-format"), dict(id=s, back=back, seed=seed))
            if all(ord(c) < 128 for c in name) and v < 2 ** 61:
                calls.append(("registry_format_io", [v] + [ord(c) for c in name]))
                expect.append([ord(c) for c in back])
                meta.append(dict(op="format", name=name, v=v))
            if kind not in ("plain",) and s not in seen:
                res.distinct.add(("id", s))
        seen.add(s)
    # ---- register / make histories on a fresh registry
    saved = reg._REGISTRY
    H = 60 if tier == "quick" else 500
    try:
        for h in range(H):
            reg._REGISTRY = {}
            ops, wire, outs = [], [], []
            pool = []
            for _ in range(int(rng.integers(2, 9))):
                fresh = rng.random() < 0.45 or not pool
                if fresh:
                    kind, s = rand_id(rng)
                    while not all(ord(c) < 128 for c in s) or kind == "bigver":
                        kind, s = rand_id(rng)
                else:
                    s = pool[int(rng.integers(0, len(pool)))]
                    if rng.random() < 0.3 and "-v" in s:      # same id written with a leading zero
                        a, b = s.rsplit("-v", 1)
                        s = a + "-v0" + b
                nk = int(rng.integers(0, 3))
                kw = {"k%d" % int(rng.integers(0, 3)): int(rng.integers(0, 50)) for _ in range(nk)}
                if rng.random() < 0.5:
                    entry = ["harness.fakeenv:FakeEnv", "harness.fakeenv:OtherEnv"][int(rng.integers(0, 2))]
                    before = dict(reg._REGISTRY)
                    try:
                        reg.register(s, entry, kwargs=dict(kw))
                        out = [10]
                        pool.append(s)
                    except ValueError as e:
                        m = str(e)
                        out = [11] if m.startswith("Malformed") else [12] if m.startswith("Version missing") else [13] if m.startswith("Trying to override") else [19]
                        res.evaluations += 1
                        after = dict(reg._REGISTRY)
                        if list(before) != list(after) or any(before[k] is not after[k] for k in before):
                            res.fail("a refused register() changed the registry", dict(op="law-register-unchanged"), dict(id=s, seed=seed, history=ops))
                    ops.append(("register", s, entry, kw))
                    wire += [0] + enc_str(s) + enc_str(entry) + [len(kw)] + sum((enc_str(k) + [v] for k, v in kw.items()), [])
                    res.count("op:register:%d" % out[0])
                else:
                    try:
                        e = reg.make(s, **kw)
                        entry = type(e).__module__ + ":" + type(e).__name__
                        out = [20] + enc_str(entry) + [len(e.kwargs)] + sum((enc_str(k) + [v] for k, v in e.kwargs.items()), [])
                    except ValueError as ex:
                        m = str(ex)
                        if m.startswith("Malformed"):
                            out = [21]
                        elif m.startswith("Version missing"):
                            out = [22]
                        elif m.startswith("Unregistered"):
                            listed = [ln[2:] for ln in m.split("\n")[1:] if ln.startswith("- ")]
                            if listed and listed[-1].endswith("."):
                                listed[-1] = listed[-1][:-1]
                            if not reg._REGISTRY:
                                listed = []
                            out = [23, len(listed)] + sum((enc_str(x) for x in listed), [])
                        else:
                            out = [29]
                    ops.append(("make", s, kw))
                    wire += [1] + enc_str(s) + [len(kw)] + sum((enc_str(k) + [v] for k, v in kw.items()), [])
                    res.count("op:make:%d" % out[0])
                outs += out
            calls.append(("registry_ops_io", wire))
            expect.append(outs)
            meta.append(dict(op="history", ops=ops))
            res.distinct.add(("history", repr(ops)))
    finally:
        reg._REGISTRY = saved
    got = core.run_model(calls)
    for (entry, args), exp, g, m in zip(calls, expect, got, meta):
        res.evaluations += 1
        if g != exp:
            res.fail("model and implementation disagree on %s" % m["op"], dict(op="corr-" + m["op"]),
                     dict(meta=m, model=g[:80], impl=exp[:80], seed=seed))
    res.traces = len(calls)
    res.samples = [dict(meta=meta[i], impl=expect[i][:30]) for i in (0, len(calls) - 1)]
    # ---- the shipped registry: unknown ids, override, instantiate every id twice
    ids = list(reg._REGISTRY)
    try:
        jumanji.make("NoSuchEnv-v0")
        res.fail("make of an unknown id does not raise", dict(op="make-unknown"), dict(id="NoSuchEnv-v0"))
    except ValueError as e:
        res.evaluations += 1
        missing = [i for i in ids if ("- " + i) not in str(e)]
        if missing:
            res.fail("the unknown-id error does not list every registered id", dict(op="make-unknown-list"), dict(missing=missing))
    original = reg._REGISTRY.get(ids[0])
    try:
        before = list(reg._REGISTRY)
        reg.register(ids[0], "harness.fakeenv:FakeEnv")
        res.fail("re-registering a shipped id (with another entry point) is not refused", dict(op="register-shipped-dup"), dict(id=ids[0]))
        reg._REGISTRY[ids[0]] = original          # put the shipped entry back: the remaining checks are about the shipped registry
    except ValueError:
        res.evaluations += 1
        if list(reg._REGISTRY) != before:
            res.fail("a refused register() changed the shipped registry", dict(op="law-register-unchanged"), dict(id=ids[0]))
    _instantiate(res, jumanji, reg, ids, tier, seed)
    res.xsamples = {k: v[:2] for k, v in core.XSAMPLES.items()}
    return res


def _instantiate(res, jumanji, reg, ids, tier, seed):
    import jax
    from jumanji.testing import pytrees
    for i in ids:
        sp = reg._REGISTRY[i]
        try:
            e1, e2 = jumanji.make(i), jumanji.make(i)
        except Exception as ex:
            if i.startswith("Sokoban"):
                res.count("not-instantiated:sokoban-dataset-absent")
                res.notes.append("Sokoban-v0 not instantiated (dataset absent offline): %r" % (ex,))
                continue
            res.fail("shipped id does not instantiate", dict(op="instantiate", id=i), dict(id=i, err=repr(ex)[:300]))
            continue
        res.evaluations += 1
        res.distinct.add(("shipped", i))
        cls = reg.load(sp.entry_point)
        if type(e1) is not cls:
            res.fail("make(id) did not build the registered class", dict(op="make-class", id=i), dict(id=i, got=type(e1).__name__))
        for k, v in sp.kwargs.items():           # registered arguments reach the constructor
            got = getattr(e1, k, getattr(e1, "_" + k, None))
            if got is not None and got is not v and not _same(got, v):
                res.fail("registered kwarg %s not passed to the constructor" % k, dict(op="make-kwargs", id=i), dict(id=i, kwarg=k))
        try:
            for nm in ("observation_spec", "action_spec", "reward_spec", "discount_spec"):
                a, b = getattr(e1, nm), getattr(e2, nm)
                if not (a == b):
                    res.fail("two make(id) calls give different %s" % nm, dict(op="make-equal-specs", id=i), dict(id=i, spec=nm))
            key = jax.random.PRNGKey(seed)
            (s1, t1), (s2, t2) = jax.jit(e1.reset)(key), jax.jit(e2.reset)(key)
            a = e1.action_spec.generate_value()
            for _ in range(3):
                if not pytrees.is_equal_pytree(jax.tree_util.tree_map(np.asarray, (s1, t1.observation, t1.reward, t1.step_type)),
                                               jax.tree_util.tree_map(np.asarray, (s2, t2.observation, t2.reward, t2.step_type))):
                    res.fail("two make(id) instances behave differently", dict(op="make-equal-behaviour", id=i), dict(id=i, seed=seed))
                    break
                s1, t1 = jax.jit(e1.step)(s1, a)
                s2, t2 = jax.jit(e2.step)(s2, a)
        except Exception as ex:
            res.fail("comparing two make(id) instances raised", dict(op="make-equal-raises", id=i), dict(id=i, err=repr(ex)[:300]))
    # caller kwargs override registered ones and nothing else
    try:
        e = jumanji.make("RubiksCube-partly-scrambled-v0", time_limit=3)
        base = reg._REGISTRY["RubiksCube-partly-scrambled-v0"].kwargs
        res.evaluations += 1
        if e.time_limit != 3 or e.generator is not base["generator"] or base["time_limit"] != 20:
            res.fail("make(id, **kwargs) does not override exactly the caller's keys", dict(op="make-override"), dict(id="RubiksCube-partly-scrambled-v0"))
        e = jumanji.make("Snake-v1", num_rows=5)
        if e.num_rows != 5 or e.num_cols != jumanji.make("Snake-v1").num_cols:
            res.fail("make(id, **kwargs) does not override exactly the caller's keys", dict(op="make-override"), dict(id="Snake-v1"))
    except Exception as ex:
        res.fail("make with overriding kwargs raised", dict(op="make-override-raises"), dict(err=repr(ex)[:300]))


def _same(a, b):
    try:
        return bool(a == b)
    except Exception:
        return False


def replay(path):
    import json
    d = json.load(open(path))
    print(json.dumps(d, indent=1)[:4000])
    seed = d["failures"][0]["replay"].get("seed", 0) if d.get("failures") else 0
    r = _analyze("quick", seed)
    for f in r.failures[:10]:
        print("REPRODUCED:", f["what"], f["where"])
    return 1 if r.failures else 0
