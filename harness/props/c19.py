"""C19: jumanji.tree_utils / jumanji.testing.pytrees against the model in coq/Base/Tree.v."""
import collections

import numpy as np

from harness import core, enc

TRUSTED = ["Coq 8.16.1 kernel + vm_compute (non-vacuity example)", "extraction (ExtrOcamlBasic only) + driver.ml",
           "harness/props/c19.py encoders (treedef -> hash, values -> exact x8 codes)",
           "JAX tree_map flatten/unflatten, jnp.stack, x[i], x.at[i].set, dm-tree map_structure, np.array_equal are MODELLED (Base/Tree.v), tied by this correspondence"]
ASSUMES = ["leaf values are dyadic (multiples of 1/8) so the integer codes are exact",
           "set/slice indices are static and in range (-n <= i < n); dtype-changing .at[].set is out of scope"]
RULE = ("random nests of dict/list/tuple/namedtuple (+ real environment states) with leaves of random "
        "dtype/shape (rank 0-3, size-0 included), batch sizes 1..8, every index; a case is distinct by "
        "(operation, structure hash, leaf shapes, index) and non-trivial when the tree has >=2 leaves or a leaf of rank>=1")

Pt = collections.namedtuple("Pt", ["x", "y"])
DTS = ["bool", "int8", "int16", "int32", "uint8", "float16", "float32"]


def rand_leaf(rng, shape, dt, nan_p=0.0):
    n = int(np.prod(shape)) if len(shape) else 1
    if dt == "bool":
        v = rng.integers(0, 2, size=n).astype(bool)
    elif dt.startswith("uint"):
        v = rng.integers(0, 5, size=n)
    elif dt.startswith("int"):
        v = rng.integers(-3, 4, size=n)
    else:
        v = rng.integers(-6, 7, size=n) / 2.0
        if nan_p and rng.random() < nan_p and n:
            v[rng.integers(0, n)] = np.nan
    return np.asarray(v, dtype=dt).reshape(shape)


def rand_template(rng, depth=0):
    """returns a nested template whose leaves are (shape, dtype)"""
    r = rng.random()
    if depth >= 2 or r < 0.35:
        rank = int(rng.integers(0, 4))
        shape = tuple(int(rng.integers(0, 4)) if rng.random() < 0.15 else int(rng.integers(1, 4)) for _ in range(rank))
        return ("leaf", shape, DTS[int(rng.integers(0, len(DTS)))])
    k = int(rng.integers(1, 4))
    kind = ["dict", "list", "tuple", "nt"][int(rng.integers(0, 4))]
    if kind == "nt":
        k = 2
    return (kind, [rand_template(rng, depth + 1) for _ in range(k)])


def build(rng, tpl, prefix=(), nan_p=0.0, as_jax=True):
    import jax.numpy as jnp
    if tpl[0] == "leaf":
        a = rand_leaf(rng, prefix + tpl[1], tpl[2], nan_p)
        return jnp.asarray(a) if as_jax else a
    kids = [build(rng, t, prefix, nan_p, as_jax) for t in tpl[1]]
    if tpl[0] == "dict":
        return {"k%d" % i: k for i, k in enumerate(kids)}
    if tpl[0] == "list":
        return list(kids)
    if tpl[0] == "tuple":
        return tuple(kids)
    return Pt(*kids)


def n_leaves(tpl):
    return 1 if tpl[0] == "leaf" else sum(n_leaves(t) for t in tpl[1])


def dm_def(t):
    import tree as tree_lib
    return repr(tree_lib.map_structure(lambda _: 0, t))


def enc_dm(t):
    import tree as tree_lib
    return enc.enc_ptree(dm_def(t), [np.asarray(l) for l in tree_lib.flatten(t)])


def env_states(rng):
    """real chex-dataclass states, batched by vmap(reset)"""
    import jax
    import jumanji
    out = []
    for name in ["Game2048-v1", "Snake-v1", "Minesweeper-v0", "Knapsack-v1"]:
        env = jumanji.make(name)
        keys = jax.random.split(jax.random.PRNGKey(int(rng.integers(0, 1000))), 3)
        sts = [env.reset(k)[0] for k in keys]
        out.append((name, sts))
    return out


def quantize(t):
    """make float leaves dyadic so codes are exact (env states contain arbitrary floats/keys)"""
    import jax
    import jax.numpy as jnp

    def q(x):
        x = jnp.asarray(x)
        if jnp.issubdtype(x.dtype, jnp.floating):
            return jnp.round(x * 8) / 8
        if x.dtype == jnp.uint32:
            return (x % 1000).astype(jnp.int32)
        return x
    return jax.tree_util.tree_map(q, t)


def analyze(tier, seed, use_cache=True):
    return core.cached(("c19", tier, seed), lambda: _analyze(tier, seed), use_cache)


def _analyze(tier, seed):
    import jax
    from jumanji import tree_utils
    from jumanji.testing import pytrees
    rng = np.random.default_rng(seed + 1900)
    res = core.Result()
    N = 150 if tier == "quick" else 1200
    calls, expect, meta = [], [], []

    def add(entry, args, exp, m):
        calls.append((entry, args))
        expect.append(exp)
        meta.append(m)

    def safe(f):
        try:
            return f()
        except Exception as e:
            return ("raises", type(e).__name__)

    groups = []
    for _ in range(N):
        tpl = rand_template(rng)
        k = int(rng.integers(1, 9))
        groups.append(("rand", tpl, [build(rng, tpl) for _ in range(k)]))
    for name, sts in env_states(rng):
        groups.append((name, None, [quantize(s) for s in sts]))
    def _group(gname, tpl, ts):
        k = len(ts)
        nl = len(jax.tree_util.tree_leaves(ts[0]))
        shapes = tuple(tuple(l.shape) for l in jax.tree_util.tree_leaves(ts[0]))
        nontriv = nl >= 2 or any(len(s) >= 1 for s in shapes)
        stacked = tree_utils.tree_transpose(ts)
        e_ts = [enc.enc_jax_tree(t) for t in ts]
        e_st = enc.enc_jax_tree(stacked)
        add("tree_transpose_io", [k] + sum(e_ts, []), [1] + e_st, dict(op="transpose", g=gname, k=k, tpl=repr(tpl)[:200]))
        res.count("op:transpose")
        res.count("batch:%d" % k)
        for i in list(range(k)) + [-1]:
            sl = safe(lambda: tree_utils.tree_slice(stacked, i))
            if isinstance(sl, tuple) and sl and sl[0] == "raises":
                add("tree_slice_io", e_st + [i], [0], dict(op="slice-raises", g=gname, i=i, err=sl[1]))
                res.count("op:slice-raises")
                continue
            e_sl = enc.enc_jax_tree(sl)
            add("tree_slice_io", e_st + [i], [1] + e_sl, dict(op="slice", g=gname, i=i, k=k, tpl=repr(tpl)[:200]))
            res.count("op:slice")
            # law on the implementation itself: slice(transpose(ts), i) == ts[i]
            res.evaluations += 1
            if e_sl != e_ts[i]:
                res.fail("slice(transpose(ts),%d) != ts[%d] on the implementation" % (i, i),
                         dict(op="law-slice-transpose", g=gname), dict(tpl=repr(tpl), k=k, i=i, seed=seed))
            if nontriv:
                res.distinct.add(("slice", gname if tpl is None else repr(tpl), shapes, i))
        # set element i to a fresh element
        if any(len(l.shape) == 0 for l in jax.tree_util.tree_leaves(stacked)):
            return
        i = int(rng.integers(-k, k))
        el = ts[int(rng.integers(0, k))] if tpl is None else build(rng, tpl)
        upd = tree_utils.tree_add_element(stacked, i, el)
        e_up = enc.enc_jax_tree(upd)
        add("tree_add_element_io", e_st + [i] + enc.enc_jax_tree(el), [1] + e_up,
            dict(op="add", g=gname, i=i, k=k, tpl=repr(tpl)[:200]))
        res.count("op:add_element")
        for j in range(k):
            got = enc.enc_jax_tree(tree_utils.tree_slice(upd, j))
            want = enc.enc_jax_tree(el) if j == i % k else e_ts[j]
            res.evaluations += 1
            if got != want:
                res.fail("tree_add_element law broken at j=%d (i=%d)" % (j, i), dict(op="law-add", g=gname),
                         dict(tpl=repr(tpl), k=k, i=i, j=j, seed=seed))
        if nontriv:
            res.distinct.add(("add", gname if tpl is None else repr(tpl), shapes, i))

    for gname, tpl, ts in groups:
      try:
        _group(gname, tpl, ts)
      except Exception as e:
        res.fail("implementation raised %s on a valid pytree operation" % type(e).__name__, dict(op="raises", g=gname),
                 dict(tpl=repr(tpl), k=len(ts), err=repr(e)[:300], seed=seed))


    # equality helper on dm-tree nests (numpy leaves), with NaNs, shape and structure mismatches
    for _ in range(N):
        tpl = rand_template(rng)
        a = build(rng, tpl, nan_p=0.2, as_jax=False)
        kind = ["same", "copy", "perturb", "shape", "struct", "dtype"][int(rng.integers(0, 6))]
        import copy
        import tree as tree_lib
        if kind == "same":
            b = a
        elif kind == "copy":
            b = copy.deepcopy(a)
        elif kind == "dtype":
            b = tree_lib.map_structure(lambda x: x.astype("float32"), a)
        elif kind == "perturb":
            flat = [np.array(x) for x in tree_lib.flatten(a)]
            cand = [x for x in flat if x.size > 0]
            if cand:
                x = cand[int(rng.integers(0, len(cand)))]
                idx = tuple(int(rng.integers(0, d)) for d in x.shape)
                x[idx] = (not x[idx]) if x.dtype == bool else x[idx] + 1
            b = tree_lib.unflatten_as(a, flat)
        elif kind == "shape":
            flat = [np.array(x) for x in tree_lib.flatten(a)]
            j = int(rng.integers(0, len(flat)))
            flat[j] = np.zeros(flat[j].shape + (1,), flat[j].dtype) if rng.random() < 0.5 else flat[j].reshape(-1)[:0]
            b = tree_lib.unflatten_as(a, flat)
        else:
            b = build(rng, rand_template(rng), as_jax=False)
        r = safe(lambda: pytrees.is_equal_pytree(a, b))
        exp = [0] if isinstance(r, tuple) else [1, int(bool(r))]
        add("is_equal_pytree_io", enc_dm(a) + enc_dm(b), exp, dict(op="eq:" + kind, tpl=repr(tpl)[:200]))
        res.count("op:eq:" + kind)
        res.count("eq-result:%s" % (exp,))
        # symmetry + assert_trees_are_different on the implementation
        r2 = safe(lambda: pytrees.is_equal_pytree(b, a))
        res.evaluations += 1
        if (isinstance(r, tuple)) != (isinstance(r2, tuple)) or (not isinstance(r, tuple) and bool(r) != bool(r2)):
            res.fail("is_equal_pytree not symmetric", dict(op="law-eq-sym"), dict(tpl=repr(tpl), kind=kind, seed=seed))
        if not isinstance(r, tuple):
            d = safe(lambda: pytrees.assert_trees_are_different(a, b))
            fails = isinstance(d, tuple) and d[1] == "AssertionError"
            if fails != bool(r):
                res.fail("assert_trees_are_different disagrees with is_equal_pytree", dict(op="law-assert"),
                         dict(tpl=repr(tpl), kind=kind, seed=seed))
        if n_leaves(tpl) >= 2:
            res.distinct.add(("eq", kind, repr(tpl)))

    outs = core.run_model(calls)
    for (entry, args), exp, got, m in zip(calls, expect, outs, meta):
        res.evaluations += 1
        if got != exp:
            res.fail("model and implementation disagree on %s" % m["op"], dict(op=m["op"], entry=entry),
                     dict(meta=m, model=got[:60], impl=exp[:60], args=args[:200], seed=seed))
    res.traces = len(calls)
    res.samples = [dict(meta=meta[i], impl=expect[i][:24]) for i in (0, 1, len(calls) // 2, len(calls) - 1)]
    res.xsamples = {k: v[:2] for k, v in core.XSAMPLES.items()}
    return res


def replay(path):
    import json
    d = json.load(open(path))
    print(json.dumps(d, indent=1)[:4000])
    seed = d["failures"][0]["replay"].get("seed", 0) if d.get("failures") else 0
    r = _analyze("quick", seed)
    print("re-run with seed %d: %d failures" % (seed, len(r.failures)))
    return 1 if r.failures else 0
