"""Drives the real environments under jit: configuration catalog, generic policies, batched rollouts.

A rollout does NOT stop at the first LAST step (C03 also speaks about steps after LAST); `first_last`
gives the index of the first LAST per episode so the other properties can cut there."""
import functools
import os

import numpy as np

os.environ.setdefault("HF_HUB_OFFLINE", "1")


def _imports():
    import jumanji.environments as E
    return E


def catalog(env, tier):
    """-> list of dict(label, make, steps, batch, time_limit, tags).  `make` builds a fresh instance."""
    E = _imports()
    q = tier == "quick"
    C = []

    def add(label, make, steps, batch=None, time_limit=None, **tags):
        C.append(dict(env=env, label=label, make=make, steps=steps, batch=batch or (6 if q else 16),
                      time_limit=time_limit, tags=tags))

    if env == "game_2048":
        add("default", lambda: E.Game2048(), 80)
        add("b3", lambda: E.Game2048(board_size=3), 60)
        add("b2", lambda: E.Game2048(board_size=2), 20)
        if not q:
            add("b6", lambda: E.Game2048(board_size=6), 150)
    elif env == "graph_coloring":
        from jumanji.environments.logic.graph_coloring.generator import RandomGenerator
        add("default", lambda: E.GraphColoring(), 24)
        add("n6p5", lambda: E.GraphColoring(RandomGenerator(num_nodes=6, edge_probability=0.5)), 9)
        add("n3p9", lambda: E.GraphColoring(RandomGenerator(num_nodes=3, edge_probability=0.9)), 5)
        if not q:
            add("n12p3", lambda: E.GraphColoring(RandomGenerator(num_nodes=12, edge_probability=0.3)), 15)
    elif env == "minesweeper":
        from jumanji.environments.logic.minesweeper.generator import UniformSamplingGenerator as G
        add("default", lambda: E.Minesweeper(), 40)
        add("r4c6m5", lambda: E.Minesweeper(G(num_rows=4, num_cols=6, num_mines=5)), 22)
        add("r3c3m1", lambda: E.Minesweeper(G(num_rows=3, num_cols=3, num_mines=1)), 10)
    elif env == "rubiks_cube":
        from jumanji.environments.logic.rubiks_cube.generator import ScramblingGenerator as G
        add("default", lambda: E.RubiksCube(time_limit=12), 16, time_limit=12, mk=lambda t: E.RubiksCube(time_limit=t))
        add("n2t3", lambda: E.RubiksCube(generator=G(cube_size=2, num_scrambles_on_reset=3), time_limit=3), 6, time_limit=3, mk=lambda t: E.RubiksCube(generator=G(cube_size=2, num_scrambles_on_reset=3), time_limit=t))
        add("n4t7", lambda: E.RubiksCube(generator=G(cube_size=4, num_scrambles_on_reset=5), time_limit=7), 10, time_limit=7, mk=lambda t: E.RubiksCube(generator=G(cube_size=4, num_scrambles_on_reset=5), time_limit=t))
        add("n3t1", lambda: E.RubiksCube(generator=G(cube_size=3, num_scrambles_on_reset=1), time_limit=1), 4, time_limit=1, mk=lambda t: E.RubiksCube(generator=G(cube_size=3, num_scrambles_on_reset=1), time_limit=t))
        if not q:
            add("n5t2", lambda: E.RubiksCube(generator=G(cube_size=5, num_scrambles_on_reset=9), time_limit=2), 5, time_limit=2, mk=lambda t: E.RubiksCube(generator=G(cube_size=5, num_scrambles_on_reset=9), time_limit=t))
            add("n3t200", lambda: E.RubiksCube(), 205, time_limit=200, mk=lambda t: E.RubiksCube(time_limit=t))
    elif env == "sliding_tile_puzzle":
        from jumanji.environments.logic.sliding_tile_puzzle.generator import RandomWalkGenerator as G
        from jumanji.environments.logic.sliding_tile_puzzle import reward as R
        add("default-t7", lambda: E.SlidingTilePuzzle(time_limit=7), 10, time_limit=7, mk=lambda t: E.SlidingTilePuzzle(time_limit=t))
        add("g3t30", lambda: E.SlidingTilePuzzle(generator=G(grid_size=3, num_random_moves=6), time_limit=30), 34, time_limit=30, mk=lambda t: E.SlidingTilePuzzle(generator=G(grid_size=3, num_random_moves=6), time_limit=t))
        add("g2t3", lambda: E.SlidingTilePuzzle(generator=G(grid_size=2, num_random_moves=3), time_limit=3), 6, time_limit=3, mk=lambda t: E.SlidingTilePuzzle(generator=G(grid_size=2, num_random_moves=3), time_limit=t))
        add("g3dense-t2", lambda: E.SlidingTilePuzzle(generator=G(grid_size=3, num_random_moves=4), reward_fn=R.DenseRewardFn(), time_limit=2), 5, time_limit=2, mk=lambda t: E.SlidingTilePuzzle(generator=G(grid_size=3, num_random_moves=4), reward_fn=R.DenseRewardFn(), time_limit=t))
        add("g4t1", lambda: E.SlidingTilePuzzle(generator=G(grid_size=4, num_random_moves=20), time_limit=1), 4, time_limit=1, mk=lambda t: E.SlidingTilePuzzle(generator=G(grid_size=4, num_random_moves=20), time_limit=t))
        if not q:
            add("g5sparse", lambda: E.SlidingTilePuzzle(reward_fn=R.SparseRewardFn(), time_limit=60), 64, time_limit=60, mk=lambda t: E.SlidingTilePuzzle(reward_fn=R.SparseRewardFn(), time_limit=t))
            add("default", lambda: E.SlidingTilePuzzle(), 505, time_limit=500, batch=2, mk=lambda t: E.SlidingTilePuzzle(time_limit=t))
    elif env == "sudoku":
        add("default", lambda: E.Sudoku(), 30)
        import jumanji
        add("very-easy", lambda: jumanji.make("Sudoku-very-easy-v0"), 30)
    elif env == "bin_pack":
        from jumanji.environments.packing.bin_pack import generator as G, reward as R
        add("default", lambda: E.BinPack(), 24)
        add("toy", lambda: E.BinPack(generator=G.ToyGenerator(), obs_num_ems=10, reward_fn=R.SparseReward()), 24)
        add("rand8-ems6-nonorm", lambda: E.BinPack(generator=G.RandomGenerator(max_num_items=8, max_num_ems=12, split_num_same_items=2),
                                                  obs_num_ems=6, normalize_dimensions=False), 12)
        if not q:
            add("rand12-ems12", lambda: E.BinPack(generator=G.RandomGenerator(max_num_items=12, max_num_ems=12), obs_num_ems=12), 16)
    elif env == "flat_pack":
        from jumanji.environments.packing.flat_pack import generator as G, reward as R
        add("default", lambda: E.FlatPack(), 28)
        add("r2c3", lambda: E.FlatPack(generator=G.RandomFlatPackGenerator(num_row_blocks=2, num_col_blocks=3), reward_fn=R.BlockDenseReward()), 9)
        add("toy", lambda: E.FlatPack(generator=G.ToyFlatPackGeneratorWithRotation()), 7)
    elif env == "job_shop":
        from jumanji.environments.packing.job_shop import generator as G
        add("default", lambda: E.JobShop(), 60)
        add("toy", lambda: E.JobShop(generator=G.ToyGenerator()), 30)
        add("j3m2", lambda: E.JobShop(generator=G.RandomGenerator(num_jobs=3, num_machines=2, max_num_ops=3, max_op_duration=2)), 25)
    elif env == "knapsack":
        from jumanji.environments.packing.knapsack import generator as G, reward as R
        add("default", lambda: E.Knapsack(), 40)
        add("n5b2sparse", lambda: E.Knapsack(generator=G.RandomGenerator(num_items=5, total_budget=2), reward_fn=R.SparseReward()), 8)
        add("n10b1", lambda: E.Knapsack(generator=G.RandomGenerator(num_items=10, total_budget=1.5)), 12)
    elif env == "tetris":
        add("default-t30", lambda: E.Tetris(time_limit=30), 34, time_limit=30, mk=lambda t: E.Tetris(time_limit=t))
        add("r6c5t7", lambda: E.Tetris(num_rows=6, num_cols=5, time_limit=7), 10, time_limit=7, mk=lambda t: E.Tetris(num_rows=6, num_cols=5, time_limit=t))
        add("r5c8t2", lambda: E.Tetris(num_rows=5, num_cols=8, time_limit=2), 5, time_limit=2, mk=lambda t: E.Tetris(num_rows=5, num_cols=8, time_limit=t))
        add("r4c4t1", lambda: E.Tetris(num_rows=4, num_cols=4, time_limit=1), 4, time_limit=1, mk=lambda t: E.Tetris(num_rows=4, num_cols=4, time_limit=t))
        if not q:
            add("default", lambda: E.Tetris(), 405, time_limit=400, batch=4, mk=lambda t: E.Tetris(time_limit=t))
    elif env == "cleaner":
        from jumanji.environments.routing.cleaner.generator import RandomGenerator as G
        add("default-t20", lambda: E.Cleaner(time_limit=20), 24, time_limit=20, mk=lambda t: E.Cleaner(time_limit=t))
        add("r5c11a2", lambda: E.Cleaner(generator=G(num_rows=5, num_cols=11, num_agents=2), time_limit=15), 18, time_limit=15, mk=lambda t: E.Cleaner(generator=G(num_rows=5, num_cols=11, num_agents=2), time_limit=t))
        add("r9c4a1-none", lambda: E.Cleaner(generator=G(num_rows=9, num_cols=4, num_agents=1)), 40, time_limit=36, mk=lambda t: E.Cleaner(generator=G(num_rows=9, num_cols=4, num_agents=1), time_limit=t))
        add("r3c3a2t1", lambda: E.Cleaner(generator=G(num_rows=3, num_cols=3, num_agents=2), time_limit=1), 4, time_limit=1, mk=lambda t: E.Cleaner(generator=G(num_rows=3, num_cols=3, num_agents=2), time_limit=t))
    elif env == "connector":
        from jumanji.environments.routing.connector import generator as G
        add("default-t12", lambda: E.Connector(time_limit=12), 15, time_limit=12, mk=lambda t: E.Connector(time_limit=t))
        add("g6a3t7", lambda: E.Connector(generator=G.RandomWalkGenerator(grid_size=6, num_agents=3), time_limit=7), 10, time_limit=7, mk=lambda t: E.Connector(generator=G.RandomWalkGenerator(grid_size=6, num_agents=3), time_limit=t))
        add("g5a2uni-t3", lambda: E.Connector(generator=G.UniformRandomGenerator(grid_size=5, num_agents=2), time_limit=3), 6, time_limit=3, mk=lambda t: E.Connector(generator=G.UniformRandomGenerator(grid_size=5, num_agents=2), time_limit=t))
        add("g4a1t1", lambda: E.Connector(generator=G.RandomWalkGenerator(grid_size=4, num_agents=1), time_limit=1), 4, time_limit=1, mk=lambda t: E.Connector(generator=G.RandomWalkGenerator(grid_size=4, num_agents=1), time_limit=t))
        if not q:
            add("default", lambda: E.Connector(), 54, time_limit=50, mk=lambda t: E.Connector(time_limit=t))
    elif env == "cvrp":
        from jumanji.environments.routing.cvrp import generator as G, reward as R
        add("default", lambda: E.CVRP(), 45)
        add("n5sparse", lambda: E.CVRP(generator=G.UniformGenerator(num_nodes=5, max_capacity=8, max_demand=4), reward_fn=R.SparseReward()), 14)
        add("n3", lambda: E.CVRP(generator=G.UniformGenerator(num_nodes=3, max_capacity=3, max_demand=3)), 9)
    elif env == "lbf":
        from jumanji.environments.routing.lbf.generator import RandomGenerator as G
        add("default-t15", lambda: E.LevelBasedForaging(time_limit=15), 18, time_limit=15, mk=lambda t: E.LevelBasedForaging(time_limit=t))
        add("g7a3f2fov1-grid-t7", lambda: E.LevelBasedForaging(generator=G(grid_size=7, fov=1, num_agents=3, num_food=2), time_limit=7, grid_observation=True), 10, time_limit=7, mk=lambda t: E.LevelBasedForaging(generator=G(grid_size=7, fov=1, num_agents=3, num_food=2), time_limit=t, grid_observation=True))
        add("g6a2f2-nonorm-pen-t3", lambda: E.LevelBasedForaging(generator=G(grid_size=6, fov=6, num_agents=2, num_food=2, force_coop=True), time_limit=3, normalize_reward=False, penalty=0.5), 6, time_limit=3, mk=lambda t: E.LevelBasedForaging(generator=G(grid_size=6, fov=6, num_agents=2, num_food=2, force_coop=True), time_limit=t, normalize_reward=False, penalty=0.5))
        add("g8a4f4fov2-t1", lambda: E.LevelBasedForaging(generator=G(grid_size=8, fov=2, num_agents=4, num_food=4), time_limit=1), 4, time_limit=1, mk=lambda t: E.LevelBasedForaging(generator=G(grid_size=8, fov=2, num_agents=4, num_food=4), time_limit=t))
    elif env == "maze":
        from jumanji.environments.routing.maze.generator import RandomGenerator as G
        add("default-t20", lambda: E.Maze(time_limit=20), 24, time_limit=20, mk=lambda t: E.Maze(time_limit=t))
        add("r5c9t7", lambda: E.Maze(generator=G(num_rows=5, num_cols=9), time_limit=7), 10, time_limit=7, mk=lambda t: E.Maze(generator=G(num_rows=5, num_cols=9), time_limit=t))
        add("r6c3none", lambda: E.Maze(generator=G(num_rows=6, num_cols=3)), 22, time_limit=18, mk=lambda t: E.Maze(generator=G(num_rows=6, num_cols=3), time_limit=t))
        add("r4c4t1", lambda: E.Maze(generator=G(num_rows=4, num_cols=4), time_limit=1), 4, time_limit=1, mk=lambda t: E.Maze(generator=G(num_rows=4, num_cols=4), time_limit=t))
    elif env == "mmst":
        from jumanji.environments.routing.mmst import generator as G
        add("default-t12", lambda: E.MMST(time_limit=12), 15, time_limit=12, mk=lambda t: E.MMST(time_limit=t))
        # the generator's max_step (route-array length) deliberately differs from the env's time_limit: the limit must come from the constructor argument
        add("n12a2t7", lambda: E.MMST(generator=G.SplitRandomGenerator(num_nodes=12, num_edges=18, max_degree=5, num_agents=2, num_nodes_per_agent=3, max_step=30), time_limit=7), 10, time_limit=7, mk=lambda t: E.MMST(generator=G.SplitRandomGenerator(num_nodes=12, num_edges=18, max_degree=5, num_agents=2, num_nodes_per_agent=3, max_step=30), time_limit=t))
        add("n12a2t1", lambda: E.MMST(generator=G.SplitRandomGenerator(num_nodes=12, num_edges=18, max_degree=5, num_agents=2, num_nodes_per_agent=3, max_step=1), time_limit=1), 4, time_limit=1, mk=lambda t: E.MMST(generator=G.SplitRandomGenerator(num_nodes=12, num_edges=18, max_degree=5, num_agents=2, num_nodes_per_agent=3, max_step=1), time_limit=t))
        # MORE agents than nodes per agent (per-agent buffers must be sized by the number of agents, not by nodes per agent)
        add("n12a4p2-t9", lambda: E.MMST(generator=G.SplitRandomGenerator(num_nodes=12, num_edges=18, max_degree=5, num_agents=4, num_nodes_per_agent=2, max_step=9), time_limit=9), 12, time_limit=9, mk=lambda t: E.MMST(generator=G.SplitRandomGenerator(num_nodes=12, num_edges=18, max_degree=5, num_agents=4, num_nodes_per_agent=2, max_step=9), time_limit=t))
    elif env == "multi_cvrp":
        from jumanji.environments.routing.multi_cvrp import generator as G
        add("default", lambda: E.MultiCVRP(), 45)
        add("v3c6", lambda: E.MultiCVRP(generator=G.UniformRandomGenerator(num_vehicles=3, num_customers=6)), 16)
    elif env == "pac_man":
        add("default", lambda: E.PacMan(), 60)
        add("t7", lambda: E.PacMan(time_limit=7), 10, time_limit=7, mk=lambda t: E.PacMan(time_limit=t))
        add("t1", lambda: E.PacMan(time_limit=1), 4, time_limit=1, mk=lambda t: E.PacMan(time_limit=t))
    elif env == "robot_warehouse":
        from jumanji.environments.routing.robot_warehouse.generator import RandomGenerator as G
        add("default-t15", lambda: E.RobotWarehouse(time_limit=15), 18, time_limit=15, mk=lambda t: E.RobotWarehouse(time_limit=t))
        add("small-t7", lambda: E.RobotWarehouse(generator=G(shelf_rows=1, shelf_columns=3, column_height=4, num_agents=2, sensor_range=2, request_queue_size=2), time_limit=7), 10, time_limit=7, mk=lambda t: E.RobotWarehouse(generator=G(shelf_rows=1, shelf_columns=3, column_height=4, num_agents=2, sensor_range=2, request_queue_size=2), time_limit=t))
        add("small-t1", lambda: E.RobotWarehouse(generator=G(shelf_rows=2, shelf_columns=1, column_height=2, num_agents=3, sensor_range=1, request_queue_size=3), time_limit=1), 4, time_limit=1, mk=lambda t: E.RobotWarehouse(generator=G(shelf_rows=2, shelf_columns=1, column_height=2, num_agents=3, sensor_range=1, request_queue_size=3), time_limit=t))
    elif env == "snake":
        add("default-t30", lambda: E.Snake(time_limit=30), 34, time_limit=30, mk=lambda t: E.Snake(time_limit=t))
        add("r6c6t3", lambda: E.Snake(num_rows=6, num_cols=6, time_limit=3), 6, time_limit=3, mk=lambda t: E.Snake(num_rows=6, num_cols=6, time_limit=t))
        add("r4c7t7", lambda: E.Snake(num_rows=4, num_cols=7, time_limit=7), 10, time_limit=7, mk=lambda t: E.Snake(num_rows=4, num_cols=7, time_limit=t))
        add("r3c3t1", lambda: E.Snake(num_rows=3, num_cols=3, time_limit=1), 4, time_limit=1, mk=lambda t: E.Snake(num_rows=3, num_cols=3, time_limit=t))
        if not q:
            add("r5c5t400", lambda: E.Snake(num_rows=5, num_cols=5, time_limit=400), 120, time_limit=400, mk=lambda t: E.Snake(num_rows=5, num_cols=5, time_limit=t))
    elif env == "sokoban":
        import jax
        from jumanji.environments.routing.sokoban import generator as G
        add("toy-t12", lambda: E.Sokoban(generator=G.ToyGenerator(), time_limit=12), 15, time_limit=12, mk=lambda t: E.Sokoban(generator=G.ToyGenerator(), time_limit=t))
        add("simple-t7", lambda: E.Sokoban(generator=G.SimpleSolveGenerator(), time_limit=7), 10, time_limit=7, mk=lambda t: E.Sokoban(generator=G.SimpleSolveGenerator(), time_limit=t))
        add("toy-t1", lambda: E.Sokoban(generator=G.ToyGenerator(), time_limit=1), 4, time_limit=1, mk=lambda t: E.Sokoban(generator=G.ToyGenerator(), time_limit=t))
    elif env == "tsp":
        from jumanji.environments.routing.tsp import generator as G, reward as R
        add("default", lambda: E.TSP(), 24)
        add("n5sparse", lambda: E.TSP(generator=G.UniformGenerator(num_cities=5), reward_fn=R.SparseReward()), 8)
        add("n2", lambda: E.TSP(generator=G.UniformGenerator(num_cities=2)), 5)
    else:
        raise KeyError(env)
    return C


ENVS = ["game_2048", "graph_coloring", "minesweeper", "rubiks_cube", "sliding_tile_puzzle", "sudoku",
        "bin_pack", "flat_pack", "job_shop", "knapsack", "tetris", "cleaner", "connector", "cvrp", "lbf",
        "maze", "mmst", "multi_cvrp", "pac_man", "robot_warehouse", "snake", "sokoban", "tsp"]


def get_mask(obs):
    return getattr(obs, "action_mask", None)


def make_sampler(env):
    """returns f(key, obs, p_uniform) -> in-spec action; respects obs.action_mask with prob 1-p_uniform."""
    import jax
    import jax.numpy as jnp
    from jumanji import specs
    spec = env.action_spec
    if isinstance(spec, specs.DiscreteArray):
        nvec = np.asarray([spec.num_values])
        scalar = True
    elif isinstance(spec, specs.MultiDiscreteArray):
        nvec = np.asarray(spec.num_values)
        scalar = False
    else:  # BoundedArray (MultiCVRP)
        nvec = np.broadcast_to(np.asarray(spec.maximum) - np.asarray(spec.minimum) + 1, spec.shape)
        scalar = False
    dtype = spec.dtype
    shape = tuple(nvec.shape)

    def uniform(key):
        a = jax.random.randint(key, shape, 0, jnp.asarray(nvec))
        return a.reshape(()).astype(dtype) if scalar else a.astype(dtype)

    def pick(key, m):  # index of a True entry of 1-D m (uniform over True entries); 0 if none
        p = m.astype(jnp.float32)
        s = p.sum()
        p = jnp.where(s > 0, p / jnp.maximum(s, 1), jnp.ones_like(p) / p.shape[0])
        return jax.random.choice(key, m.shape[0], p=p)

    def sample(key, obs, p_uniform):
        k1, k2, k3 = jax.random.split(key, 3)
        mask = get_mask(obs)
        if mask is None:
            return uniform(k1)
        mask = jnp.asarray(mask)
        if scalar and mask.ndim == 1:
            masked = pick(k2, mask).astype(dtype)
        elif (not scalar) and mask.shape == tuple(int(x) for x in nvec.reshape(-1)) and nvec.ndim == 1:
            idx = pick(k2, mask.reshape(-1))
            masked = jnp.stack(jnp.unravel_index(idx, mask.shape)).astype(dtype)
        elif (not scalar) and mask.ndim == 2 and mask.shape[0] == nvec.reshape(-1).shape[0]:
            ks = jax.random.split(k2, mask.shape[0])
            masked = jax.vmap(pick)(ks, mask).astype(dtype).reshape(shape)
        else:
            return uniform(k1)
        return jnp.where(jax.random.uniform(k3) < p_uniform, uniform(k1), masked)

    return sample


def rollout(env, keys, steps, p_uniform, sampler=None, _cache={}):
    """vmapped+jitted rollout.  Returns numpy pytrees: states [B,T+1], actions [B,T], timesteps [B,T+1]."""
    import jax
    import jax.numpy as jnp
    sampler = sampler or make_sampler(env)

    def one(key):
        k0, kp = jax.random.split(key)
        s0, ts0 = env.reset(k0)

        def body(carry, k):
            s, ts = carry
            a = sampler(k, ts.observation, p_uniform)
            s2, ts2 = env.step(s, a)
            ts2 = ts2.replace(extras={})
            return (s2, ts2), (s2, ts2, a)
        ts0 = ts0.replace(extras={})
        (_, _), (ss, tss, acts) = jax.lax.scan(body, (s0, ts0), jax.random.split(kp, steps))
        cat = lambda a, b: jnp.concatenate([jnp.asarray(a)[None], jnp.asarray(b)], 0)
        return jax.tree_util.tree_map(cat, s0, ss), jax.tree_util.tree_map(cat, ts0, tss), acts, k0

    ck = (id(env), steps)
    if ck not in _cache:
        def one_p(key, p):
            nonlocal p_uniform
            p_uniform = p
            return one(key)
        _cache[ck] = (jax.jit(jax.vmap(one_p, in_axes=(0, None))), env)
    states, tss, acts, k0 = _cache[ck][0](keys, jnp.asarray(p_uniform, jnp.float32))
    to_np = lambda t: jax.tree_util.tree_map(np.asarray, t)
    return to_np(states), to_np(tss), np.asarray(acts), np.asarray(k0)


def first_last(tss):
    """index (into the T+1 timesteps) of the first LAST per episode, or T+1 if none"""
    st = np.asarray(tss.step_type)
    B, T1 = st.shape
    out = np.full(B, T1, dtype=int)
    for b in range(B):
        w = np.where(st[b] == 2)[0]
        if len(w):
            out[b] = w[0]
    return out


def slice_tree(t, b, i=None):
    import jax
    return jax.tree_util.tree_map((lambda x: x[b]) if i is None else (lambda x: x[b, i]), t)
