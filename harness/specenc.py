"""Encode real jumanji specs / values into the wire format of coq/Base/SpecIO.v."""
import numpy as np

from harness import enc


def enc_name(s):
    return [len(s)] + [ord(c) for c in s]


def enc_shape(sh):
    return [len(sh)] + [int(d) for d in sh]


def enc_bound(b):
    b = np.asarray(b)
    codes = [int(x) for x in enc.ord_codes(b).reshape(-1)]
    return enc_shape(b.shape) + [len(codes)] + codes


def spec_children(sp):
    return sorted(sp._specs.items())


def enc_spec(sp):
    from jumanji import specs
    if isinstance(sp, specs.DiscreteArray):
        return [2, int(sp.num_values), enc.dt_code(sp.dtype)] + enc_name(sp.name)
    if isinstance(sp, specs.MultiDiscreteArray):
        nv = np.asarray(sp.num_values)
        return [3] + enc_shape(nv.shape) + [nv.size] + [int(x) for x in nv.reshape(-1)] + [enc.dt_code(sp.dtype)] + enc_name(sp.name)
    if isinstance(sp, specs.BoundedArray):
        return [1] + enc_shape(sp.shape) + [enc.dt_code(sp.dtype)] + enc_bound(sp.minimum) + enc_bound(sp.maximum) + enc_name(sp.name)
    if isinstance(sp, specs.Array):
        return [0] + enc_shape(sp.shape) + [enc.dt_code(sp.dtype)] + enc_name(sp.name)
    kids = spec_children(sp)
    out = [4] + enc_name(sp.name) + [len(kids)]
    for k, s in kids:
        out += enc_name(k) + enc_spec(s)
    return out


def value_children(v):
    if isinstance(v, tuple) and hasattr(v, "_asdict"):
        return sorted(v._asdict().items())
    if isinstance(v, dict):
        return sorted(v.items())
    if hasattr(v, "__dict__") and not hasattr(v, "shape"):
        return sorted(vars(v).items())
    return None


def enc_value(v):
    kids = value_children(v)
    if kids is None:
        import jax.numpy as jnp
        a = np.asarray(jnp.asarray(v))
        return [0] + enc.enc_tensor(a, enc.ord_codes)
    out = [1, len(kids)]
    for k, x in kids:
        out += enc_name(k) + enc_value(x)
    return out
