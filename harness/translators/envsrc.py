"""Shared core of the ENVIRONMENT source translators (T1): a small typed translator from the Python `ast` of jumanji environment
code to Gallina.  Used by maze_src.py (and further per-environment translators); not a translator itself (no `generate`).

Types: "Z" (integer scalar), "B" (boolean scalar), "Pos" (a NamedTuple of two integers = pair Z * Z), "VB" (1-D bool array = list bool),
"MB" (2-D bool array = list (list bool)), "VPos" (array of integer pairs), "State", "Obs", "TS" (timestep), ("fn", ...) functions.
The meaning given to the JAX constructs that occur (this is the trusted part, validated by the step correspondence of every run):
    x[i]                     gather on a 1-D array: jget (negative index wraps once, out of range clamps)
    w[r, c]                  gather on a 2-D array: gget
    jax.lax.select(c, a, b)  if c then a else b
    jax.lax.switch(i, fs, x) the i-th function applied to x, i clamped into range          (lax_switch)
    jax.lax.cond(c, f, g, *xs) if c then f xs else g xs
    jax.vmap(f, in_axes=(None, 0))(a, xs) = map (f a) xs
    ~ & | on booleans        negb && ||;   jnp.any(v) = existsb id v;   jnp.array(b, float) = b2z b (reward code)
    NamedTuple(a, b) / .row / .col   pair / fst / snd;   dataclass(k=v, ...)   record construction
Fail-closed: anything outside the grammar raises Unsupported."""
import ast


class Unsupported(Exception):
    pass


def u(n):
    return ast.unparse(n)


COQ_TY = {"Pen": "Z", "VQ": "(list Z * Z)", "Q": "(Z * Z)", "MQ": "(list (list Z) * Z)", "F": "Z", "VF": "list Z", "VBcol": "list bool", "Z": "Z", "B": "bool", "Pos": "(Z * Z)", "VB": "list bool", "MB": "list (list bool)", "VPos": "list (Z * Z)", "VZ": "list Z",
          "MZ": "list (list Z)", "PB": "(bool * bool)", "VPB": "list (bool * bool)", "Ext": "unit", "Key": "unit"}

PRELUDE = r'''(* element-wise operations on small fixed-rank arrays: a (2,) integer array is a pair, an (N, N) integer array a list of rows *)
Fixpoint zip_with {A B C : Type} (f : A -> B -> C) (a : list A) (b : list B) : list C :=
  match a, b with x :: a', y :: b' => f x y :: zip_with f a' b' | _, _ => [] end.
Definition pos_cmp (f : Z -> Z -> bool) (p : Z * Z) (k : Z) : bool * bool := (f (fst p) k, f (snd p) k).
Definition pb_and (a b : bool * bool) : bool * bool := (fst a && fst b, snd a && snd b).
Definition pb_all (a : bool * bool) : bool := fst a && snd a.
Definition m_cmp (f : Z -> Z -> bool) (a b : list (list Z)) : list (list bool) := zip_with (zip_with f) a b.
Definition m_and (a b : list (list bool)) : list (list bool) := zip_with (zip_with andb) a b.
Definition m_sum (a : list (list bool)) : Z := zsum (map b2z (concat a)).
(* jnp.unique(v, size=n, fill_value=f): the sorted distinct values, padded with f (or truncated) to n entries *)
Fixpoint uniq_insert (x : Z) (l : list Z) : list Z :=
  match l with
  | [] => [x]
  | y :: t => if x <? y then x :: l else if x =? y then l else y :: uniq_insert x t
  end.
Definition jnp_unique (v : list Z) (n : Z) (f : Z) : list Z :=
  let u := fold_left (fun acc x => uniq_insert x acc) v [] in
  firstn (Z.to_nat n) (u ++ repeat f (Z.to_nat n - length u)).
(* base.at[idxs].set(v) with an index ARRAY: one scatter per index (all writes carry the same value) *)
Definition scatter_const {A : Type} (base : list A) (idxs : list Z) (v : A) : list A := fold_left (fun b i => jset b i v) idxs base.
(* jnp.dot(mask, values) for a boolean mask and float values carried as exact dyadic integers (the sum is exact in the model) *)
Fixpoint dot_bf (p : list bool) (v : list Z) : Z :=
  match p, v with pi :: p', vi :: v' => (if pi then vi else 0) + dot_bf p' v' | _, _ => 0 end.
Definition m_max (a : list (list Z)) : Z := match concat a with [] => 0 | x :: t => fold_left Z.max t x end.    (* a.max() of a non-empty array *)
Definition m_map {A B : Type} (f : A -> B) (a : list (list A)) : list (list B) := map (map f) a.
Definition m_all (a : list (list bool)) : bool := forallb (forallb (fun b : bool => b)) a.
Definition m_eqb (a b : list (list Z)) : bool := list_eqb (list_eqb Z.eqb) a b.      (* jnp.array_equal on equally shaped arrays *)
(* v.reshape(rows, cols), row-major *)
Definition reshape2 (rows cols : Z) (flat : list Z) : list (list Z) :=
  map (fun r => map (fun c => znth 0 flat (r * cols + c)) (zrange cols)) (zrange rows).
(* jnp.pad(g, pad_width=p): p zeros on every side of a 2-D array *)
Definition pad2 (p : Z) (g : list (list Z)) : list (list Z) :=
  map (fun i => map (fun j => if inb (zlen g) (i - p) && inb (zlen (hd [] g)) (j - p) then gat 0 g (i - p) (j - p) else 0)
                    (zrange (zlen (hd [] g) + 2 * p))) (zrange (zlen g + 2 * p)).
(* jax.lax.dynamic_slice_in_dim(l, start, size): the start is normalised, then clamped into [0, n - size] *)
Definition dyn_slice {A : Type} (l : list A) (start size : Z) : list A := firstn_z size (skipn_z (dyn_start (zlen l) size start) l).
Definition lax_switch {A B : Type} (i : Z) (fs : list (A -> B)) (d : A -> B) (x : A) : B :=
  nth (Z.to_nat (Z.max 0 (Z.min (zlen fs - 1) i))) fs d x.
'''


class Tr:
    """expression / statement translator with a type environment"""

    def __init__(self, schema):
        self.S = schema           # state_fields, obs_fields, self_attrs, methods {name: (coq name, [param types], result type)}
        self.env = {}             # local variable -> type

    def fork(self, extra):
        t = Tr(self.S)
        t.env = dict(self.env)
        t.env.update(extra)
        return t

    # ------------------------------------------------------------------ expressions: returns (text, type)
    def expr(self, n):
        S = self.S
        if isinstance(n, ast.Constant):
            if isinstance(n.value, bool):
                return ("true" if n.value else "false"), "B"
            if isinstance(n.value, int):
                return "(%d)" % n.value, "Z"
            if isinstance(n.value, float) and n.value == int(n.value):
                return "(%d)" % int(n.value), "Z"      # reward code of an integral float
            raise Unsupported("constant " + repr(n.value))
        if isinstance(n, ast.UnaryOp) and isinstance(n.op, ast.USub) and isinstance(n.operand, ast.Constant) and isinstance(n.operand.value, int):
            return "(%d)" % (-n.operand.value), "Z"
        if isinstance(n, ast.UnaryOp) and isinstance(n.op, ast.USub):
            v, t = self.expr(n.operand)
            if t == "Z":
                return "(- %s)" % v, "Z"
            raise Unsupported("unary minus on %s" % (t,))
        if isinstance(n, ast.Name):
            if n.id in self.env:
                return n.id, self.env[n.id]
            if n.id in S.get("constants", {}):
                return S["constants"][n.id]
            if n.id in S.get("functions", {}):
                c, pts, rt = S["functions"][n.id]
                return c, ("fn", pts, rt)
            raise Unsupported("unknown name " + n.id)
        if isinstance(n, ast.Attribute) and u(n) == "jnp.dot":
            return "dot_bf", ("fn", ["VB", "VF"], "F")
        if isinstance(n, ast.Attribute) and n.attr != "shape":
            if u(n).startswith("self.") and "self" not in self.env and "." in u(n)[5:] and u(n)[5:] in S.get("methods", {}):
                c, pts, rt = S["methods"][u(n)[5:]]
                return c, ("fn", pts, rt)
            if u(n).startswith("self.") and "self" not in self.env and u(n)[5:] in S["self_attrs"] and "." in u(n)[5:]:
                return u(n)[5:].replace(".", "_"), S["self_attrs"][u(n)[5:]]
            if isinstance(n.value, ast.Name) and n.value.id == "self" and "self" not in self.env:
                if n.attr in S["self_attrs"]:
                    return n.attr, S["self_attrs"][n.attr]
                if n.attr in S.get("methods", {}):
                    c, pts, rt = S["methods"][n.attr]
                    return c, ("fn", pts, rt)
                raise Unsupported("self." + n.attr)
            v, t = self.expr(n.value)
            if t == "State" and n.attr == "key" and n.attr in S["state_fields"] and S["state_fields"][n.attr] is None:
                return "tt", "Key"
            if t == "State" and S["state_fields"].get(n.attr):
                return "(s_%s %s)" % (n.attr, v), S["state_fields"][n.attr]
            if t == "Obs" and n.attr in S["obs_fields"]:
                return "(o_%s %s)" % (n.attr, v), S["obs_fields"][n.attr]
            if t == "Pos" and n.attr in ("row", "col"):
                return "(%s %s)" % ("fst" if n.attr == "row" else "snd", v), "Z"
            raise Unsupported("attribute %s of a %s" % (n.attr, t))
        if isinstance(n, ast.UnaryOp) and isinstance(n.op, ast.Invert):
            v, t = self.expr(n.operand)
            if t == "VB":
                return "(map negb %s)" % v, "VB"
            if t != "B":
                raise Unsupported("~ on " + str(t))
            return "(negb %s)" % v, "B"
        if isinstance(n, ast.BinOp):
            a, ta = self.expr(n.left)
            b, tb = self.expr(n.right)
            if isinstance(n.op, (ast.BitOr, ast.BitAnd)) and ta == tb == "B":
                return "(%s %s %s)" % (a, "||" if isinstance(n.op, ast.BitOr) else "&&", b), "B"
            if isinstance(n.op, ast.Sub) and ta == tb == "F":
                return "(rnd (%s - %s))" % (a, b), "F"        # the ONE float operation that can be inexact: an explicit rounding
            if isinstance(n.op, ast.BitAnd) and ta == tb == "VB":
                return "(zip_with andb %s %s)" % (a, b), "VB"
            if isinstance(n.op, ast.Div) and ta == "VZ" and tb == "Z":
                return "(%s, %s)" % (a, b), "VQ"
            if isinstance(n.op, ast.Div) and ta == tb == "Z":
                return "(%s, %s)" % (a, b), "Q"
            if isinstance(n.op, ast.Div) and ta == "MZ" and tb == "Z":
                return "(%s, %s)" % (a, b), "MQ"        # element-wise float quotient, kept as (numerators, common denominator)
            if isinstance(n.op, ast.Sub) and ta == "Z" and tb == "Pen":
                return "(4 * %s - penalty_quarters)" % a, "Z"      # count - float penalty, carried in QUARTERS (Cleaner)
            if isinstance(n.op, ast.Pow) and ta == tb == "Z":
                return "(Z.pow %s %s)" % (a, b), "Z"
            if isinstance(n.op, ast.Mod) and ta == tb == "Z":
                return "(%s mod %s)" % (a, b), "Z"       # Python's % and Coq's mod agree for a positive modulus (floor)
            if isinstance(n.op, (ast.Add, ast.Sub, ast.Mult)) and ta == tb == "Z":
                return "(%s %s %s)" % (a, {ast.Add: "+", ast.Sub: "-", ast.Mult: "*"}[type(n.op)], b), "Z"
            if isinstance(n.op, ast.Add) and ta == "Z" and tb == "B":
                return "(%s + b2z %s)" % (a, b), "Z"
            if isinstance(n.op, (ast.Sub, ast.Add)) and ta == "MZ" and tb == "Z":
                return "(m_map (fun x_ : Z => x_ %s %s) %s)" % ("-" if isinstance(n.op, ast.Sub) else "+", b, a), "MZ"
            if isinstance(n.op, ast.Add) and ta == tb == "Pos" and S.get("position_add"):
                return "(Position_add %s %s)" % (a, b), "Pos"
            if isinstance(n.op, ast.Add) and ta == tb == "VPos":
                return "(zip_with (fun (p_ q_ : Z * Z) => (fst p_ + fst q_, snd p_ + snd q_)) %s %s)" % (a, b), "VPos"
            if isinstance(n.op, ast.Sub) and ta == tb == "Z" and False:
                pass
            if isinstance(n.op, ast.Add) and ta == "Pos" and tb == "VPos":     # (2,) + (K, 2) broadcasts over the K rows
                return "(map (fun m_ : Z * Z => (fst %s + fst m_, snd %s + snd m_)) %s)" % (a, a, b), "VPos"
            if isinstance(n.op, ast.BitAnd) and ta == tb == "PB":
                return "(pb_and %s %s)" % (a, b), "PB"
            if isinstance(n.op, ast.BitAnd) and ta == tb == "VPB":
                return "(zip_with pb_and %s %s)" % (a, b), "VPB"
            if isinstance(n.op, ast.BitAnd) and ta == tb == "MB":
                return "(m_and %s %s)" % (a, b), "MB"
            if isinstance(n.op, ast.Add) and ta == tb == "Pos":       # jnp.array([r, c]) + move
                return "(fst %s + fst %s, snd %s + snd %s)" % (a, b, a, b), "Pos"
            raise Unsupported("binary operator %s on %s, %s" % (type(n.op).__name__, ta, tb))
        if isinstance(n, ast.Compare) and len(n.ops) == 1:
            a, ta = self.expr(n.left)
            b, tb = self.expr(n.comparators[0])
            op = type(n.ops[0])
            if ta == tb == "Z":
                sym = {ast.GtE: ">=?", ast.Gt: ">?", ast.LtE: "<=?", ast.Lt: "<?", ast.Eq: "=?"}.get(op)
                if sym:
                    return "(%s %s %s)" % (a, sym, b), "B"
                if op is ast.NotEq:
                    return "(negb (%s =? %s))" % (a, b), "B"
            fsym = {ast.GtE: "Z.geb", ast.Gt: "Z.gtb", ast.LtE: "Z.leb", ast.Lt: "Z.ltb", ast.Eq: "Z.eqb"}.get(op)
            if ta == "Z" and tb == "Pos" and op in (ast.LtE, ast.Lt):     # k <= p  ==  p >= k
                return "(pos_cmp %s %s %s)" % ("Z.geb" if op is ast.LtE else "Z.gtb", b, a), "PB"
            if ta == "Pos" and tb == "Z" and fsym:
                return "(pos_cmp %s %s %s)" % (fsym, a, b), "PB"
            if ta == "VPos" and tb == "Z" and fsym:
                return "(map (fun p_ : Z * Z => pos_cmp %s p_ %s) %s)" % (fsym, b, a), "VPB"
            if ta == tb == "F" and fsym:         # comparisons of float32 values are exact
                return "(%s %s %s)" % (fsym, a, b), "B"
            if ta == "VF" and tb == "F" and fsym:
                return "(map (fun x_ : Z => %s x_ %s) %s)" % (fsym, b, a), "VB"
            if ta == "Z" and tb == "VZ" and op in (ast.GtE, ast.Gt, ast.LtE, ast.Lt):
                flip = {ast.GtE: "Z.leb", ast.Gt: "Z.ltb", ast.LtE: "Z.geb", ast.Lt: "Z.gtb"}[op]
                return "(map (fun x_ : Z => %s x_ %s) %s)" % (flip, a, b), "VB"
            if ta == "VZ" and tb == "Z" and fsym:
                return "(map (fun x_ : Z => %s x_ %s) %s)" % (fsym, b, a), "VB"
            if ta == "MZ" and tb == "Z" and fsym:
                return "(m_map (fun x_ : Z => %s x_ %s) %s)" % (fsym, b, a), "MB"
            if ta == tb == "MZ" and op in (ast.Eq, ast.NotEq):
                return "(m_cmp (fun x_ y_ => %s(x_ =? y_)) %s %s)" % ("negb " if op is ast.NotEq else "", a, b), "MB"
            if ta == tb == "Pos" and op is ast.Eq:
                return "(Position_eq %s %s)" % (a, b), "B"
            raise Unsupported("comparison %s on %s, %s" % (op.__name__, ta, tb))
        if isinstance(n, ast.Attribute) and n.attr == "shape":
            v, t = self.expr(n.value)
            if t in ("MZ", "MB"):
                return "(zlen %s, zlen (hd [] %s))" % (v, v), ("tuple", ["Z", "Z"])
            if t in ("VZ", "VB"):
                return "(zlen %s)" % v, ("shape1",)
            raise Unsupported(".shape of a %s" % (t,))
        if isinstance(n, ast.Subscript) and isinstance(n.value, ast.Attribute) and n.value.attr == "shape":
            v, t = self.expr(n.value.value)
            k = u(n.slice)
            if t in ("MZ", "MB") and k in ("-1", "1"):
                return "(zlen (hd [] %s))" % v, "Z"
            if t in ("MZ", "MB") and k in ("-2", "0"):
                return "(zlen %s)" % v, "Z"
            if t in ("VZ", "VB") and k in ("-1", "0"):
                return "(zlen %s)" % v, "Z"
            raise Unsupported("shape subscript " + u(n))
        if isinstance(n, ast.Subscript):
            v, t = self.expr(n.value)
            if t == "VB" and not isinstance(n.slice, (ast.Tuple, ast.Slice)):
                i, ti = self.expr(n.slice)
                if ti == "Z":
                    return "(jget false %s %s)" % (v, i), "B"
            if t == "MB" and isinstance(n.slice, ast.Tuple) and len(n.slice.elts) == 2 and isinstance(n.slice.elts[0], ast.Call) \
                    and u(n.slice.elts[0].func) == "jnp.arange" and len(n.slice.elts[0].args) == 1:
                cnt_, tcnt = self.expr(n.slice.elts[0].args[0])
                idx, tix = self.expr(n.slice.elts[1])
                if tcnt == "Z" and tix == "VZ":      # m[arange(k), idx] : row i, column idx[i] (k = number of rows)
                    return "(zip_with (fun (row_ : list bool) (a_ : Z) => jget false row_ a_) %s %s)" % (v, idx), "VB"
            if t == "VPos" and not isinstance(n.slice, (ast.Tuple, ast.Slice)) and self.expr(n.slice)[1] == "VZ":
                return "(map (fun a_ : Z => jget (0, 0) %s a_) %s)" % (v, self.expr(n.slice)[0]), "VPos"
            if t == "VB" and u(n.slice) == "(slice(None, None, None), None)" or (t == "VB" and isinstance(n.slice, ast.Tuple) and len(n.slice.elts) == 2
                    and isinstance(n.slice.elts[0], ast.Slice) and isinstance(n.slice.elts[1], ast.Constant) and n.slice.elts[1].value is None):
                return v, "VBcol"          # v[:, None] : broadcasts each entry over the row of the other operand
            if t == "VPos" and isinstance(n.slice, ast.Tuple) and len(n.slice.elts) == 2 and isinstance(n.slice.elts[0], ast.Slice) \
                    and isinstance(n.slice.elts[1], ast.Constant) and n.slice.elts[1].value in (0, 1):
                return "(map %s %s)" % ("fst" if n.slice.elts[1].value == 0 else "snd", v), ("VZof", v, n.slice.elts[1].value)
            if t == "MB" and isinstance(n.slice, ast.Tuple) and len(n.slice.elts) == 2 and isinstance(n.slice.elts[1], ast.Slice) \
                    and n.slice.elts[1].lower is None and n.slice.elts[1].upper is None and n.slice.elts[1].step is None:
                i, ti = self.expr(n.slice.elts[0])
                if ti == "Z":
                    return "(jget [] %s %s)" % (v, i), "VB"
            if t == "VB" and isinstance(n.slice, ast.Slice) and n.slice.lower is None and n.slice.step is None and u(n.slice.upper) == "-1":
                return "(removelast %s)" % v, "VB"
            if t == "VZ" and not isinstance(n.slice, (ast.Tuple, ast.Slice)) and self.expr(n.slice)[1] == "Z":
                return "(jget 0 %s %s)" % (v, self.expr(n.slice)[0]), "Z"
            if t == "VF" and not isinstance(n.slice, (ast.Tuple, ast.Slice)):
                i, ti = self.expr(n.slice)
                if ti == "Z":
                    return "(jget 0 %s %s)" % (v, i), "F"
            if t == "VPos" and not isinstance(n.slice, ast.Tuple):
                i, ti = self.expr(n.slice)
                if ti == "Z":
                    return "(jget (0, 0) %s %s)" % (v, i), "Pos"
            if t == "MZ" and isinstance(n.slice, ast.Call) and u(n.slice.func) == "tuple" and len(n.slice.args) == 1:
                pp, tp = self.expr(n.slice.args[0])
                if tp == "Pos":
                    return "(gget 0 %s (fst %s) (snd %s))" % (v, pp, pp), "Z"
            if t == "MB" and isinstance(n.slice, ast.Tuple) and len(n.slice.elts) == 2:
                (r, tr), (c, tc) = self.expr(n.slice.elts[0]), self.expr(n.slice.elts[1])
                if tr == tc == "Z":
                    return "(gget false %s %s %s)" % (v, r, c), "B"
            if t == "MZ" and isinstance(n.slice, ast.Tuple) and len(n.slice.elts) == 2:
                (r, tr), (c, tc) = self.expr(n.slice.elts[0]), self.expr(n.slice.elts[1])
                if tr == tc == "Z":
                    return "(gget 0 %s %s %s)" % (v, r, c), "Z"
            raise Unsupported("subscript " + u(n))
        if isinstance(n, ast.Lambda):
            a = n.args
            want = getattr(n, "_param_types", None)
            if a.vararg is not None and not a.args and not a.defaults and not a.kwonlyargs and not a.kwarg and want is not None:
                body, tb = self.expr(n.body)       # `lambda *_: e` ignores its arguments
                return "(fun %s => %s)" % (" ".join("(_ : %s)" % COQ_TY[t] for t in want), body), ("fn", list(want), tb)
            if a.defaults or a.kwonlyargs or a.vararg or a.kwarg:
                raise Unsupported("lambda signature")
            if not a.args:
                body, tb = self.expr(n.body)
                return body, ("thunk", tb)
            if want is None or len(want) != len(a.args):
                raise Unsupported("lambda in a position where its parameter types are unknown")
            sub = self.fork({x.arg: t for x, t in zip(a.args, want)})
            body, tb = sub.expr(n.body)
            return "(fun %s => %s)" % (" ".join("(%s : %s)" % (x.arg, COQ_TY[t]) for x, t in zip(a.args, want)), body), ("fn", list(want), tb)
        if isinstance(n, ast.Dict) and all(isinstance(k, ast.Constant) and isinstance(k.value, str) for k in n.keys):
            for v_ in n.values:
                self.expr(v_)          # extras are not part of the modelled timestep: the values must still be translatable
            return "tt", "Ext"
        if isinstance(n, ast.Tuple):
            vs = [self.expr(e) for e in n.elts]
            return "(" + ", ".join(v for v, _ in vs) + ")", ("tuple", [t for _, t in vs])
        if isinstance(n, ast.Call):
            return self.call(n)
        raise Unsupported("expression " + ast.dump(n)[:160])

    def call(self, n):
        S = self.S
        f = u(n.func)
        kws = {k.arg: k.value for k in n.keywords}
        if f == "jax.lax.select" and len(n.args) == 3 and not kws:
            (c, tc), (a, ta), (b, tb) = [self.expr(x) for x in n.args]
            if tc == "B" and ta == tb:
                return "(if %s then %s else %s)" % (c, a, b), ta
            raise Unsupported("select types")
        if f == "jax.lax.switch" and len(n.args) == 3 and not kws and isinstance(n.args[1], ast.List) and n.args[1].elts:
            i, ti = self.expr(n.args[0])
            x, tx = self.expr(n.args[2])
            fs = []
            for lam in n.args[1].elts:
                if isinstance(lam, ast.Lambda):
                    lam._param_types = [tx]
                fs.append(self.expr(lam))
            rts = {str(t[2]) for _, t in fs}
            if ti != "Z" or len(rts) != 1 or any(t[0] != "fn" for _, t in fs):
                raise Unsupported("switch types")
            return "(lax_switch %s [%s] %s %s)" % (i, "; ".join(v for v, _ in fs), fs[-1][0], x), fs[0][1][2]
        if f in ("jax.lax.cond", "lax.cond") and len(n.args) > 3 and not kws:
            c, tc = self.expr(n.args[0])
            xs = [self.expr(x) for x in n.args[3:]]
            for lam in n.args[1:3]:
                if isinstance(lam, ast.Lambda):
                    lam._param_types = [t for _, t in xs]
            g, tg = self.expr(n.args[1])
            h, th = self.expr(n.args[2])
            if tc != "B" or tg[0] != "fn" or th[0] != "fn":
                raise Unsupported("cond types")
            if "TS" in (tg[2], th[2]) and all(isinstance(x, ast.Lambda) for x in n.args[1:3]):
                return "(if %s then %s %s else %s %s)" % (c, g, " ".join(v for v, _ in xs), h, " ".join(v for v, _ in xs)), "TS"
            if "TS" in (tg[2], th[2]):      # termination / transition (reward, observation): the timestep model carries no observation
                r = [v for v, t in xs if t in ("Z", "F")]
                if len(r) != 1 or len(xs) != 2 or tg[2] != th[2]:
                    raise Unsupported("cond(done, termination, transition, reward, observation) shape")
                return "(if %s then %s [%s] else %s [%s])" % (c, g, r[0], h, r[0]), "TS"
            return "(if %s then %s %s else %s %s)" % (c, g, " ".join(v for v, _ in xs), h, " ".join(v for v, _ in xs)), tg[2]
        if f in ("jax.lax.cond", "lax.cond") and len(n.args) == 3 and not kws:
            c, tc = self.expr(n.args[0])
            (g, tg), (h, th) = self.expr(n.args[1]), self.expr(n.args[2])
            if tc == "B" and tg[0] == "thunk" and th[0] == "thunk" and tg[1] == th[1]:
                return "(if %s then %s else %s)" % (c, g, h), tg[1]
            raise Unsupported("cond with thunks: types %s %s" % (tg, th))
        if f == "jnp.all" and len(n.args) == 1:
            v, t = self.expr(n.args[0])
            if t == "PB" and not kws:
                return "(pb_all %s)" % v, "B"
            if t == "B" and not kws:
                return v, "B"            # jnp.all of a scalar boolean
            if t == "VPB" and [(k, u(x)) for k, x in kws.items()] == [("axis", "-1")]:
                return "(map pb_all %s)" % v, "VB"
            if t == "MB" and not kws:
                return "(m_all %s)" % v, "B"
            if t == "VB" and not kws:
                return "(forallb (fun b : bool => b) %s)" % v, "B"
            raise Unsupported("jnp.all on %s" % (t,))
        if f == "jnp.sum" and len(n.args) == 1 and not kws:
            v, t = self.expr(n.args[0])
            if t == "MB":
                return "(m_sum %s)" % v, "Z"
        if f == "jnp.array_equal" and len(n.args) == 2 and not kws:
            (a, ta), (b, tb) = self.expr(n.args[0]), self.expr(n.args[1])
            if ta == tb == "MZ":
                return "(m_eqb %s %s)" % (a, b), "B"
        if isinstance(n.func, ast.Attribute) and n.func.attr == "astype" and len(n.args) == 1 and u(n.args[0]) == "float" and not kws:
            v, t = self.expr(n.func.value)
            if t == "Z":
                return v, "Z"            # reward code of an integral float
            if t == "B":
                return "(b2z %s)" % v, "Z"
        if isinstance(n.func, ast.Attribute) and n.func.attr == "set" and len(n.args) == 1 and not kws and isinstance(n.func.value, ast.Subscript) \
                and isinstance(n.func.value.value, ast.Attribute) and n.func.value.value.attr == "at":
            arr, ta = self.expr(n.func.value.value.value)
            idx = n.func.value.slice
            val, tv = self.expr(n.args[0])
            if ta == "MZ" and tv == "Z" and isinstance(idx, ast.Tuple) and len(idx.elts) == 2:
                (i0, t0), (i1, t1) = self.expr(idx.elts[0]), self.expr(idx.elts[1])
                if isinstance(t0, tuple) and isinstance(t1, tuple) and t0[0] == t1[0] == "VZof" and t0[1] == t1[1] and (t0[2], t1[2]) == (0, 1):
                    # g.at[ps[:, 0], ps[:, 1]].set(v): one scatter per position (same value, so the order is irrelevant)
                    return "(fold_left (fun (g_ : list (list Z)) (p_ : Z * Z) => gset g_ (fst p_) (snd p_) %s) %s %s)" % (val, t0[1], arr), "MZ"
            if ta == "VB" and tv == "B" and not isinstance(idx, (ast.Tuple, ast.Call)) and self.expr(idx)[1] == "Z":
                return "(jset %s %s %s)" % (arr, self.expr(idx)[0], val), "VB"
            if ta == "VZ" and tv == "Z" and not isinstance(idx, (ast.Tuple, ast.Call)):
                i, ti = self.expr(idx)
                if ti == "Z":
                    return "(jset %s %s %s)" % (arr, i, val), "VZ"
            if ta == "VZ" and tv == "Z" and not isinstance(idx, (ast.Tuple, ast.Call)) and self.expr(idx)[1] == "VZ":
                return "(scatter_const %s %s %s)" % (arr, self.expr(idx)[0], val), "VZ"
            if ta == "VB" and tv == "B" and not isinstance(idx, (ast.Tuple, ast.Call)):
                i, ti = self.expr(idx)
                if ti == "VZ":
                    return "(scatter_const %s %s %s)" % (arr, i, val), "VB"
            if ta == "MB" and tv == "B" and isinstance(idx, ast.Call) and u(idx.func) == "tuple" and len(idx.args) == 1:
                pp, tp = self.expr(idx.args[0])
                if tp == "Pos":
                    return "(gset %s (fst %s) (snd %s) %s)" % (arr, pp, pp, val), "MB"
            if ta == "MZ" and tv == "Z" and isinstance(idx, ast.Name) and self.env.get(idx.id) == ("tuple", ["Z", "Z"]):
                return "(gset %s (fst %s) (snd %s) %s)" % (arr, idx.id, idx.id, val), "MZ"      # g.at[(r, c)].set(v) with the pair in a variable
            if ta == "MZ" and tv == "Z" and isinstance(idx, ast.Call) and u(idx.func) == "tuple" and len(idx.args) == 1:
                pp, tp = self.expr(idx.args[0])
                if tp == "Pos":
                    return "(gset %s (fst %s) (snd %s) %s)" % (arr, pp, pp, val), "MZ"
            raise Unsupported(".at[].set on %s" % (ta,))
        if f in S.get("functions", {}) and not n.args and set(kws) <= {"reward", "observation", "extras"} and "observation" in kws:
            c, pts, rt = S["functions"][f]
            _, to = self.expr(kws["observation"])
            if to != "Obs" or rt != "TS":
                raise Unsupported("%s(...) keyword form" % f)
            if "extras" in kws:
                self.expr(kws["extras"])
            if "reward" in kws:
                r, tr_ = self.expr(kws["reward"])
                if tr_ != "Z":
                    raise Unsupported("%s: reward type" % f)
                return "(%s [%s])" % (S["ts_kw"][f], r), "TS"
            return S["ts_kw"][f], "TS"
        if isinstance(n.func, ast.Attribute) and n.func.attr == "squeeze" and not n.args and not kws:
            v, t = self.expr(n.func.value)
            if t == "Pos":
                return v, "Pos"
        if f == "jnp.full" and not n.args and set(kws) == {"shape", "fill_value", "dtype"} and u(kws["shape"]) == "()" and u(kws["dtype"]) == "jnp.int32":
            v, t = self.expr(kws["fill_value"])
            if t == "Z":
                return v, "Z"
        if f == "jnp.logical_and" and len(n.args) == 2 and not kws:
            (a, ta), (b, tb) = self.expr(n.args[0]), self.expr(n.args[1])
            if ta == tb == "B":
                return "(%s && %s)" % (a, b), "B"
            if ta == tb == "MB":
                return "(m_and %s %s)" % (a, b), "MB"
        if isinstance(n.func, ast.Attribute) and n.func.attr in ("all", "any") and not n.args and not kws:
            v, t = self.expr(n.func.value)
            if t == "VB":
                return "(%s (fun b : bool => b) %s)" % ("forallb" if n.func.attr == "all" else "existsb", v), "B"
            if t == "MB":
                return ("(m_all %s)" % v) if n.func.attr == "all" else ("(existsb (existsb (fun b : bool => b)) %s)" % v), "B"
        if f == "jnp.sum" and len(n.args) == 1 and [(k, u(x)) for k, x in kws.items()] == [("dtype", "float")]:
            v, t = self.expr(n.args[0])
            if t == "MB":
                return "(m_sum %s)" % v, "Z"
        if f.startswith("jax.vmap(jax.vmap(") and isinstance(n.func, ast.Call) and len(n.func.args) == 1 and isinstance(n.func.args[0], ast.Call) \
                and [(k.arg, u(k.value)) for k in n.func.keywords] == [("in_axes", "(0, None)")] \
                and [(k.arg, u(k.value)) for k in n.func.args[0].keywords] == [("in_axes", "(None, 0)")] and len(n.args) == 2 and not kws:
            g, tg = self.expr(n.func.args[0].args[0])
            (xs, tx), (ys, ty) = self.expr(n.args[0]), self.expr(n.args[1])
            if tg[0] == "fn" and tg[1] == ["Pos", "Pos"] and tg[2] == "B" and tx == ty == "VPos":
                return "(map (fun x_ : Z * Z => map (%s x_) %s) %s)" % (g, ys, xs), "MB"
            raise Unsupported("nested vmap types")
        if isinstance(n.func, ast.Attribute) and n.func.attr == "sum" and not n.args and not kws:
            v, t = self.expr(n.func.value)
            if t == "MB":
                return "(m_sum %s)" % v, "Z"
            if t == "MZ":
                return "(zsum (map zsum %s))" % v, "Z"
        if isinstance(n.func, ast.Attribute) and n.func.attr == "reshape" and len(n.args) == 1 and isinstance(n.args[0], ast.Starred) and not kws:
            v, t = self.expr(n.func.value)
            sh, tsh = self.expr(n.args[0].value)
            if t == "VZ" and tsh == ("tuple", ["Z", "Z"]):
                return "(let '(r_, c_) := %s in reshape2 r_ c_ %s)" % (sh, v), "MZ"
        if f == "jnp.zeros" and len(n.args) == 1 and isinstance(n.args[0], ast.Tuple) and len(n.args[0].elts) == 1 \
                and [(k, u(x)) for k, x in kws.items()] == [("dtype", "jnp.int32")]:
            v, t = self.expr(n.args[0].elts[0])
            if t == "Z":
                return "(repeat 0 (Z.to_nat %s))" % v, "VZ"
        if f == "jnp.pad" and len(n.args) == 1 and set(kws) == {"pad_width"}:
            v, t = self.expr(n.args[0])
            p_, tp = self.expr(kws["pad_width"])
            if t == "MZ" and tp == "Z":
                return "(pad2 %s %s)" % (p_, v), "MZ"
        if f == "jax.lax.dynamic_slice_in_dim" and len(n.args) == 1 and set(kws) == {"start_index", "slice_size", "axis"}:
            v, t = self.expr(n.args[0])
            (st_, tst), (sz, tsz) = self.expr(kws["start_index"]), self.expr(kws["slice_size"])
            ax = u(kws["axis"])
            if t == "MZ" and tst == tsz == "Z" and ax == "-2":
                return "(dyn_slice %s %s %s)" % (v, st_, sz), "MZ"
            if t == "MZ" and tst == tsz == "Z" and ax == "-1":
                return "(map (fun row_ : list Z => dyn_slice row_ %s %s) %s)" % (st_, sz, v), "MZ"
        if f == "jnp.equal" and len(n.args) == 2 and not kws:
            (a, ta), (b, tb) = self.expr(n.args[0]), self.expr(n.args[1])
            if ta == "MZ" and tb == "Z":
                return "(m_map (fun x_ : Z => Z.eqb x_ %s) %s)" % (b, a), "MB"
        if f == "jnp.array" and len(n.args) == 2 and u(n.args[1]) == "float" and not kws and S.get("reward_codes"):
            v, t = self.expr(n.args[0])
            if t == "Z":
                return v, "Z"        # a float reward constant carried as an opaque integer code (the code is only ever SELECTED)
        if f == "jnp.max" and len(n.args) == 1 and not kws:
            v, t = self.expr(n.args[0])
            if t == "MZ":
                return "(m_max %s)" % v, "Z"
        if f == "jnp.ravel" and len(n.args) == 1 and not kws:
            v, t = self.expr(n.args[0])
            if t == "MB":
                return "(concat %s)" % v, "VB"
        if f == "jnp.divmod" and len(n.args) == 2 and not kws:
            (a, ta), (b, tb) = self.expr(n.args[0]), self.expr(n.args[1])
            if ta == tb == "Z":
                return "(%s / %s, %s mod %s)" % (a, b, a, b), ("tuple", ["Z", "Z"])     # floor division / modulo (positive divisor)
        if f == "jnp.zeros" and len(n.args) == 1 and isinstance(n.args[0], ast.Tuple) and len(n.args[0].elts) == 2 \
                and [(k, u(x)) for k, x in kws.items()] == [("dtype", "jnp.int32")]:
            (r_, tr_), (c_, tc_) = self.expr(n.args[0].elts[0]), self.expr(n.args[0].elts[1])
            if tr_ == tc_ == "Z":
                return "(repeat (repeat 0 (Z.to_nat %s)) (Z.to_nat %s))" % (c_, r_), "MZ"
        if f == "jax.random.choice" and S.get("choice_oracles"):
            # the PRNG is an oracle; each call site must be one of the pinned shapes and becomes the named oracle APPLIED TO ITS ARGUMENT
            for pat, (coq, argname, rt) in S["choice_oracles"].items():
                if u(n).replace(" ", "") == pat.replace(" ", "").replace("<ARG>", u(kws["p"]).replace(" ", "") if "p" in kws else ""):
                    if argname is None:
                        return coq, rt
                    v, t = self.expr(kws["p"])
                    if t != argname:
                        raise Unsupported("choice oracle argument type %s" % (t,))
                    return "(%s %s)" % (coq, v), rt
            raise Unsupported("jax.random.choice call outside the pinned shapes: " + u(n))
        if f == "jnp.arange" and len(n.args) == 1 and not kws:
            k_, tk = self.expr(n.args[0])
            if tk == "Z":
                return "(zrange %s)" % k_, "VZ"
        if f.startswith("jax.vmap(") and isinstance(n.func, ast.Call) and len(n.func.args) == 2 and not n.func.keywords and u(n.func.args[1]) == "(None, 0)" \
                and len(n.args) == 2 and not kws:
            g, tg = self.expr(n.func.args[0])
            x, tx = self.expr(n.args[0])
            ys, ty_ = self.expr(n.args[1])
            if tg[0] == "fn" and list(tg[1]) == [tx, "Z"] and ty_ == "VZ" and tg[2] == "B":
                return "(map (%s %s) %s)" % (g, x, ys), "VB"
            raise Unsupported("vmap(f, (None, 0))(x, ys) types")
        if f == "jnp.zeros_like" and len(n.args) == 1 and not kws:
            v, t = self.expr(n.args[0])
            if t == "MB":
                return "(m_map (fun _ : bool => false) %s)" % v, "MB"
        if f == "jnp.maximum" and len(n.args) == 2 and not kws:
            (a, ta), (b, tb) = self.expr(n.args[0]), self.expr(n.args[1])
            if ta == tb == "Z":
                return "(Z.max %s %s)" % (a, b), "Z"
        if isinstance(n.func, ast.Attribute) and n.func.attr == "max" and not n.args and not kws:
            v, t = self.expr(n.func.value)
            if t == "MZ":
                return "(m_max %s)" % v, "Z"
        if f == "jnp.concatenate" and len(n.args) == 1 and [(k, u(x)) for k, x in sorted(kws.items())] == [("axis", "-1"), ("dtype", "float")] \
                and isinstance(n.args[0], ast.Call) and u(n.args[0].func) == "jax.tree_util.tree_map" and len(n.args[0].args) == 2 \
                and u(n.args[0].args[0]) == "lambda x: x[..., None]" and isinstance(n.args[0].args[1], ast.List):
            # jnp.concatenate([p[..., None] for p in planes], axis=-1, dtype=float): the planes stacked along a new last axis
            ps = [self.expr(e) for e in n.args[0].args[1].elts]
            return "(" + ", ".join(v for v, _ in ps) + ")", ("planes", [t for _, t in ps])
        if f == "jnp.logical_not" and len(n.args) == 1 and not kws:
            v, t = self.expr(n.args[0])
            if t == "B":
                return "(negb %s)" % v, "B"
        if f == "jnp.logical_or" and len(n.args) == 2 and not kws:
            (a, ta), (b, tb) = self.expr(n.args[0]), self.expr(n.args[1])
            if ta == tb == "B":
                return "(%s || %s)" % (a, b), "B"
        if f == "jnp.where" and len(n.args) == 3 and not kws:
            (c, tc), (a, ta), (b, tb) = [self.expr(x) for x in n.args]
            if tc == "B" and ta == tb == "Z":
                return "(if %s then %s else %s)" % (c, a, b), "Z"
            if tc == "VBcol" and ta == "VPos" and tb == "Z" and b == "(0)":
                return "(zip_with (fun (c_ : bool) (m_ : Z * Z) => if c_ then m_ else (0, 0)) %s %s)" % (c, a), "VPos"
            if tc == "VB" and ta == "VZ" and tb == "Z":
                return "(zip_with (fun (c_ : bool) (x_ : Z) => if c_ then x_ else %s) %s %s)" % (b, c, a), "VZ"
            raise Unsupported("jnp.where on %s, %s, %s" % (tc, ta, tb))
        if f == "jnp.unique" and len(n.args) == 1 and set(kws) == {"size", "fill_value"}:
            v, t = self.expr(n.args[0])
            (sz, ts_), (fv, tf) = self.expr(kws["size"]), self.expr(kws["fill_value"])
            if t == "VZ" and ts_ == tf == "Z":
                return "(jnp_unique %s %s %s)" % (v, sz, fv), "VZ"
        if f == "jnp.count_nonzero" and len(n.args) == 1 and not kws:
            v, t = self.expr(n.args[0])
            if t == "VB":
                return "(zsum (map b2z %s))" % v, "Z"
        if f == "jnp.ones" and len(n.args) == 1 and [(k, u(x)) for k, x in kws.items()] == [("dtype", "bool")]:
            v, t = self.expr(n.args[0])
            if t == "Z":
                return "(repeat true (Z.to_nat %s))" % v, "VB"
        if f == "jnp.full" and len(n.args) == 2 and [(k, u(x)) for k, x in kws.items()] == [("dtype", "jnp.int32")]:
            (k_, tk), (v, tv) = self.expr(n.args[0]), self.expr(n.args[1])
            if tk == tv == "Z":
                return "(repeat %s (Z.to_nat %s))" % (v, k_), "VZ"
        if f == "jnp.array" and len(n.args) == 2 and u(n.args[1]) == "jnp.int32" and not kws:
            v, t = self.expr(n.args[0])
            if t == "Z":
                return v, "Z"
        if f == "jax.random.split" and len(n.args) == 1 and not kws:
            v, t = self.expr(n.args[0])
            if t == "Key":
                return "(tt, tt)", ("tuple", ["Key", "Key"])
        if f == "jnp.clip" and len(n.args) == 2 and not kws:
            (m, tm), (lo, tl) = self.expr(n.args[0]), self.expr(n.args[1])
            if tm == "MZ" and tl == "Z":
                return "(m_map (Z.max %s) %s)" % (lo, m), "MZ"
        if f == "jnp.asarray" and len(n.args) == 2 and u(n.args[1]) == "float" and not kws and self.expr(n.args[0])[1] in ("VQ", "Q"):
            return self.expr(n.args[0])
        if f == "jnp.asarray" and len(n.args) == 2 and u(n.args[1]) == "float" and not kws:
            v, t = self.expr(n.args[0])
            if t == "B":
                return "(b2z %s)" % v, "Z"
            if t == "Z":
                return v, "Z"
        if f == "Position" and len(n.args) == 1 and isinstance(n.args[0], ast.Starred) and not kws \
                and isinstance(n.args[0].value, ast.Call) and u(n.args[0].value.func) == "tuple" and len(n.args[0].value.args) == 1:
            v, t = self.expr(n.args[0].value.args[0])
            if t == "Pos":
                return v, "Pos"
        if f == "Position" and not n.args and set(kws) == {"row", "col"}:
            (a, ta), (b, tb) = self.expr(kws["row"]), self.expr(kws["col"])
            if ta == tb == "Z":
                return "(%s, %s)" % (a, b), "Pos"
        if f.startswith("jax.vmap(") and isinstance(n.func, ast.Call) and len(n.func.args) == 1 and not n.func.keywords and len(n.args) == 1 and not kws:
            g, tg = self.expr(n.func.args[0])
            xs, tx = self.expr(n.args[0])
            if tg[0] == "fn" and tg[1] == ["Pos"] and tx == "VPos" and tg[2] == "B":
                return "(map %s %s)" % (g, xs), "VB"
            raise Unsupported("vmap(f)(xs) types %s %s" % (tg, tx))
        if f == "jnp.any" and len(n.args) == 1 and not kws:
            v, t = self.expr(n.args[0])
            if t == "VB":
                return "(existsb (fun b => b) %s)" % v, "B"
        if f == "jnp.array" and len(n.args) == 2 and u(n.args[1]) == "float" and not kws and S.get("float_rewards"):
            v, t = self.expr(n.args[0])
            if t == "Z":
                return v, "F"
        if f == "jnp.array" and len(n.args) == 2 and u(n.args[1]) == "float" and not kws:
            v, t = self.expr(n.args[0])
            if t == "B":
                return "(b2z %s)" % v, "Z"
        if f == "jnp.array" and len(n.args) == 1 and isinstance(n.args[0], ast.List) and len(n.args[0].elts) == 2 and not kws:
            (a, ta), (b, tb) = self.expr(n.args[0].elts[0]), self.expr(n.args[0].elts[1])
            if ta == tb == "Z":
                return "(%s, %s)" % (a, b), "Pos"
        if f == "Position" and len(n.args) == 2 and not kws:
            (a, ta), (b, tb) = self.expr(n.args[0]), self.expr(n.args[1])
            if ta == tb == "Z":
                return "(%s, %s)" % (a, b), "Pos"
        if f in ("State", "Observation"):
            fields = S["state_fields"] if f == "State" else S["obs_fields"]
            if n.args or set(kws) != set(fields):
                raise Unsupported("%s(...) fields %s" % (f, sorted(kws)))
            parts = []
            for k, t in fields.items():
                v, tv = self.expr(kws[k]) if t else (None, None)
                if t is None:
                    continue       # fields the model does not carry (the PRNG key): must be a plain copy
                if tv != t:
                    raise Unsupported("%s.%s : %s given a %s" % (f, k, t, tv))
                parts.append(v)
            for k, t in fields.items():
                if t is None and not (isinstance(kws[k], ast.Attribute) and kws[k].attr == k):
                    if self.expr(kws[k])[1] != "Key":
                        raise Unsupported("%s.%s is neither copied from the previous state nor a PRNG key" % (f, k))
            return "(mk%s %s)" % (f, " ".join(parts)), ("State" if f == "State" else "Obs")
        if f.startswith("jax.vmap(") and isinstance(n.func, ast.Call) and len(n.func.args) == 1 and len(n.args) == 2 and not kws \
                and [(k.arg, u(k.value)) for k in n.func.keywords] == [("in_axes", "(None, 0)")]:
            g, tg = self.expr(n.func.args[0])
            (a, ta), (xs, tx) = self.expr(n.args[0]), self.expr(n.args[1])
            if tg[0] == "fn" and tg[1] == [ta, "Pos"] and tx == "VPos" and tg[2] == "B":
                return "(map (%s %s) %s)" % (g, a, xs), "VB"
            raise Unsupported("vmap types %s" % (tg,))
        # calls of known functions / methods
        g, tg = self.expr(n.func)
        if tg[0] == "fn" and not kws:
            args = [self.expr(x) for x in n.args]
            if [t for _, t in args] != list(tg[1]):
                raise Unsupported("call %s: argument types %s, expected %s" % (f, [t for _, t in args], tg[1]))
            return "(%s %s)" % (g, " ".join(v for v, _ in args)), tg[2]
        if tg[0] == "fn" and not n.args and set(kws) == {"observation"} and tg[1] == ["Obs"]:
            return g, tg[2]
        names = S.get("kwnames", {}).get(f[5:] if f.startswith("self.") else f)
        if tg[0] == "fn" and not n.args and names is not None and set(kws) == set(names):      # all-keyword call of a known function
            args = [self.expr(kws[k]) for k in names]
            if [t for _, t in args] != list(tg[1]):
                raise Unsupported("call %s: keyword argument types %s, expected %s" % (f, [t for _, t in args], tg[1]))
            return "(%s %s)" % (g, " ".join(v for v, _ in args)), tg[2]
        raise Unsupported("call " + f)

    # ------------------------------------------------------------------ statements of a function body -> nested lets
    def body(self, stmts, ret_types):
        out = []
        for i, s in enumerate(stmts):
            if isinstance(s, ast.Expr) and isinstance(s.value, ast.Constant) and isinstance(s.value.value, str):
                continue
            if isinstance(s, ast.FunctionDef):      # nested def: a local function with annotated Position / array parameters
                pts = []
                for a in s.args.args:
                    t = self.S["annot"].get(u(a.annotation)) if a.annotation is not None else None
                    if t is None:
                        raise Unsupported("nested def %s: parameter %s : %s" % (s.name, a.arg, u(a.annotation) if a.annotation else None))
                    pts.append(t)
                # chex.Array parameters are ambiguous; the schema may pin them by (function, parameter)
                pts = [self.S.get("nested_param_types", {}).get((s.name, a.arg), t) for a, t in zip(s.args.args, pts)]
                sub = self.fork({a.arg: t for a, t in zip(s.args.args, pts)})
                b, tb = sub.body(s.body, None)
                out.append("let %s := fun %s => %s in" % (s.name, " ".join("(%s : %s)" % (a.arg, COQ_TY[t]) for a, t in zip(s.args.args, pts)), b))
                self.env[s.name] = ("fn", pts, tb)
                continue
            if isinstance(s, ast.Return):
                if i != len(stmts) - 1:
                    raise Unsupported("early return")
                if isinstance(s.value, ast.Tuple):
                    vs = [self.expr(e) for e in s.value.elts]
                    if ret_types is not None and [t for _, t in vs] != ret_types:
                        raise Unsupported("return types %s, expected %s" % ([t for _, t in vs], ret_types))
                    return "\n    ".join(out + ["(" + ", ".join(v for v, _ in vs) + ")"]), tuple(t for _, t in vs)
                v, t = self.expr(s.value)
                if isinstance(t, tuple) and t[0] == "tuple" and ret_types is not None and t[1] == ret_types:
                    return "\n    ".join(out + [v]), t
                if ret_types is not None and [t] != ret_types:
                    raise Unsupported("return type %s, expected %s" % (t, ret_types))
                return "\n    ".join(out + [v]), t
            if isinstance(s, ast.Assign) and len(s.targets) == 1:
                tgt = s.targets[0]
                if isinstance(tgt, ast.Name):
                    v, t = self.expr(s.value)
                    out.append("let %s := %s in" % (tgt.id, v))
                    self.env[tgt.id] = t
                    continue
                if isinstance(tgt, ast.Tuple) and all(isinstance(e, ast.Name) for e in tgt.elts) and len(tgt.elts) == 2:
                    v, t = self.expr(s.value)
                    if isinstance(t, tuple) and t[0] == "tuple" and len(t[1]) == 2:
                        out.append("let '(%s, %s) := %s in" % (tgt.elts[0].id, tgt.elts[1].id, v))
                        self.env[tgt.elts[0].id], self.env[tgt.elts[1].id] = t[1]
                        continue
                    if t != "Pos":
                        raise Unsupported("tuple assignment from a %s" % (t,))
                    out.append("let '(%s, %s) := %s in" % (tgt.elts[0].id, tgt.elts[1].id, v))
                    self.env[tgt.elts[0].id] = self.env[tgt.elts[1].id] = "Z"
                    continue
                if isinstance(tgt, ast.Attribute) and isinstance(tgt.value, ast.Name) and self.env.get(tgt.value.id) == "State" \
                        and self.S["state_fields"].get(tgt.attr):       # state.field = value : record update
                    v, t = self.expr(s.value)
                    if t != self.S["state_fields"][tgt.attr]:
                        raise Unsupported("state.%s given a %s" % (tgt.attr, t))
                    x = tgt.value.id
                    parts = [v if k == tgt.attr else "(s_%s %s)" % (k, x) for k, tt in self.S["state_fields"].items() if tt]
                    out.append("let %s := mkState %s in" % (x, " ".join(parts)))
                    continue
            raise Unsupported("statement " + u(s)[:160])
        raise Unsupported("no return")


def record(name, prefix, fields):
    fs = [(k, t) for k, t in fields.items() if t]
    return "Record %s := mk%s { %s }.\n" % (name, name, "; ".join("%s_%s : %s" % (prefix, k, COQ_TY[t]) for k, t in fs))


def dataclass_fields(cls_node):
    return [s.target.id for s in cls_node.body if isinstance(s, ast.AnnAssign) and isinstance(s.target, ast.Name)]
