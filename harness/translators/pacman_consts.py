"""PacMan constants -> coq/Gen/PacManConsts.v.

(T2, value dump)  constants.DEFAULT_MAZE (as ASCII codes) and constants.MOVES, plus the scalar / per-ghost start
values that AsciiGenerator.__call__ writes into the reset state (ghost_starts, ghost_actions, ...), read from the
state the REAL generator returns.  The maze itself is NOT dumped as numbers: coq/Model/PacMan.v re-parses the
ASCII diagram with its own model of generator.generate_maze_from_ascii and the harness compares the result with the
real reset state field by field.
(T1, ast)  two small facts are read from the source text, fail-closed:
  * env.py  `self.time_limit = time_limit or <int>`            -> DEFAULT_TIME_LIMIT
  * utils.player_step  `Position(x=new_pos_col % <A>, y=new_pos_row % <B>)` with A, B in {x_size, y_size}
                                                             -> PLAYER_X_WRAP_SEL / PLAYER_Y_WRAP_SEL (0 = x_size =
    number of rows, 1 = y_size = number of columns).  The rest of player_step must be literally the known body
    (compared as an ast dump), otherwise the translator raises.
"""
import ast
import importlib
import os
import sys

REPO = os.environ.get("VERIF_REPO", "/repo")
PKG = "jumanji.environments.routing.pac_man"

# ast.dump of utils.player_step's body without the docstring and without the `new_pos = Position(...)` statement
EXPECTED_PLAYER_STEP_REST = (
    "position = state.player_locations\n"
    "move_left = lambda position: (position.y, position.x - steps)\n"
    "move_up = lambda position: (position.y - steps, position.x)\n"
    "move_right = lambda position: (position.y, position.x + steps)\n"
    "move_down = lambda position: (position.y + steps, position.x)\n"
    "no_op = lambda position: (position.y, position.x)\n"
    "new_pos_row, new_pos_col = jax.lax.switch(action, [move_left, move_up, move_right, move_down, no_op], position)\n"
    "return new_pos\n"
)


OUTPUTS = ["PacManConsts.v"]

def _z(x):
    x = int(x)
    return str(x) if x >= 0 else "(%d)" % x


def _int(x, what):
    import numpy as np
    a = np.asarray(x)
    if a.shape != () or not (np.issubdtype(a.dtype, np.integer) or a.dtype == bool):
        raise ValueError("pacman constants: %s is %r, not an integer scalar" % (what, x))
    return int(a)


def _list(xs, what):
    import numpy as np
    a = np.asarray(xs)
    if a.ndim != 1:
        raise ValueError("pacman constants: %s is not a vector" % what)
    return "[" + "; ".join(_z(_int(v, what)) for v in a) + "]"


def _player_wrap(src):
    tree = ast.parse(src)
    fn = [n for n in tree.body if isinstance(n, ast.FunctionDef) and n.name == "player_step"]
    if len(fn) != 1:
        raise ValueError("pacman constants: utils.player_step not found")
    fn = fn[0]
    if [a.arg for a in fn.args.args] != ["state", "action", "x_size", "y_size", "steps"]:
        raise ValueError("pacman constants: utils.player_step has an unexpected signature")
    body = list(fn.body)
    if body and isinstance(body[0], ast.Expr) and isinstance(getattr(body[0], "value", None), ast.Constant):
        body = body[1:]
    pos = [s for s in body if isinstance(s, ast.Assign) and len(s.targets) == 1 and isinstance(s.targets[0], ast.Name)
           and s.targets[0].id == "new_pos"]
    if len(pos) != 1:
        raise ValueError("pacman constants: `new_pos = Position(...)` not found in player_step")
    rest = [s for s in body if s is not pos[0]]
    exp = ast.parse(EXPECTED_PLAYER_STEP_REST).body
    # `return` outside a function parses fine with ast.parse
    if [ast.dump(s) for s in rest] != [ast.dump(s) for s in exp]:
        raise ValueError("pacman constants: utils.player_step body changed; the model in coq/Model/PacMan.v must be revisited")
    call = pos[0].value
    if not (isinstance(call, ast.Call) and isinstance(call.func, ast.Name) and call.func.id == "Position" and not call.args
            and sorted(k.arg for k in call.keywords) == ["x", "y"]):
        raise ValueError("pacman constants: unexpected Position(...) construction in player_step")
    sel = {}
    for k in call.keywords:
        v = k.value
        want = {"x": "new_pos_col", "y": "new_pos_row"}[k.arg]
        if not (isinstance(v, ast.BinOp) and isinstance(v.op, ast.Mod) and isinstance(v.left, ast.Name) and v.left.id == want
                and isinstance(v.right, ast.Name) and v.right.id in ("x_size", "y_size")):
            raise ValueError("pacman constants: Position.%s is not `%s %% x_size|y_size`" % (k.arg, want))
        sel[k.arg] = 0 if v.right.id == "x_size" else 1
    return sel["x"], sel["y"]


def _default_limit(src):
    tree = ast.parse(src)
    found = []
    for n in ast.walk(tree):
        if (isinstance(n, ast.Assign) and len(n.targets) == 1 and isinstance(n.targets[0], ast.Attribute)
                and n.targets[0].attr == "time_limit" and isinstance(n.targets[0].value, ast.Name) and n.targets[0].value.id == "self"):
            found.append(n.value)
    if len(found) != 1:
        raise ValueError("pacman constants: expected exactly one `self.time_limit = ...` in env.py")
    v = found[0]
    if not (isinstance(v, ast.BoolOp) and isinstance(v.op, ast.Or) and len(v.values) == 2 and isinstance(v.values[0], ast.Name)
            and v.values[0].id == "time_limit" and isinstance(v.values[1], ast.Constant) and type(v.values[1].value) is int):
        raise ValueError("pacman constants: `self.time_limit = time_limit or <int>` not recognised (got %s)" % ast.dump(v))
    return v.values[1].value


def generate():
    if REPO not in sys.path:
        sys.path.insert(0, REPO)
    import numpy as np
    C = importlib.reload(importlib.import_module(PKG + ".constants"))
    maze = C.DEFAULT_MAZE
    if not isinstance(maze, list) or not maze or any(not isinstance(r, str) for r in maze) or len({len(r) for r in maze}) != 1:
        raise ValueError("pacman constants: DEFAULT_MAZE is not a rectangular list of strings")
    for r in maze:
        for ch in r:
            if ord(ch) > 127:
                raise ValueError("pacman constants: non-ASCII character in DEFAULT_MAZE")
    moves = np.asarray(C.MOVES)
    if moves.shape != (5, 2) or not np.issubdtype(moves.dtype, np.integer):
        raise ValueError("pacman constants: MOVES is not a 5x2 integer array")
    base = os.path.join(REPO, *PKG.split("."))
    sx, sy = _player_wrap(open(os.path.join(base, "utils.py")).read())
    tl = _default_limit(open(os.path.join(base, "env.py")).read())
    G = importlib.import_module(PKG + ".generator")
    import jax
    s = G.AsciiGenerator(maze)(jax.random.PRNGKey(0))
    rows = ";\n   ".join("[" + "; ".join(str(ord(ch)) for ch in r) + "]" for r in maze)
    text = ("(* GENERATED by harness/translators/pacman_consts.py from jumanji/environments/routing/pac_man\n"
            "   (constants.py by value; reset scalars from the real AsciiGenerator; two ast facts).  Do not edit. *)\n"
            "Require Import JV.Base.Prelude.\n\n"
            "(* constants.DEFAULT_MAZE, one list of ASCII codes per row *)\n"
            "Definition DEFAULT_MAZE_ASCII : list (list Z) :=\n  [%s].\n\n"
            "(* constants.MOVES *)\n"
            "Definition MOVES : list (list Z) := [%s].\n\n"
            "(* AsciiGenerator.__call__: start values of the reset state *)\n"
            "Definition RESET_GHOST_STARTS : list Z := %s.\n"
            "Definition RESET_GHOST_ACTIONS : list Z := %s.\n"
            "Definition RESET_GHOST_INIT_STEPS : list Z := %s.\n"
            "Definition RESET_GHOST_EATEN : list Z := %s.\n"
            "Definition RESET_LAST_DIRECTION : Z := %s.\n"
            "Definition RESET_FRIGHTENED : Z := %s.\n"
            "Definition RESET_STEP_COUNT : Z := %s.\n"
            "Definition RESET_SCORE : Z := %s.\n"
            "Definition RESET_DEAD : Z := %s.\n\n"
            "(* env.py: self.time_limit = time_limit or %d *)\n"
            "Definition DEFAULT_TIME_LIMIT : Z := %s.\n\n"
            "(* utils.player_step: Position(x=new_pos_col %% A, y=new_pos_row %% B); 0 = x_size (rows), 1 = y_size (columns) *)\n"
            "Definition PLAYER_X_WRAP_SEL : Z := %d.\n"
            "Definition PLAYER_Y_WRAP_SEL : Z := %d.\n"
            % (rows, "; ".join(_list(m, "MOVES") for m in moves),
               _list(s.ghost_starts, "ghost_starts"), _list(s.ghost_actions, "ghost_actions"),
               _list(s.ghost_init_steps, "ghost_init_steps"), _list(s.ghost_eaten, "ghost_eaten"),
               _z(_int(s.last_direction, "last_direction")), _z(_int(s.frightened_state_time, "frightened_state_time")),
               _z(_int(s.step_count, "step_count")), _z(_int(s.score, "score")), _z(_int(s.dead, "dead")),
               tl, _z(tl), sx, sy))
    return {"PacManConsts.v": text}


if __name__ == "__main__":
    print(generate()["PacManConsts.v"])
