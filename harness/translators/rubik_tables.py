"""T1 translator (Python `ast` -> Coq text, fail-closed) for the Rubik's cube move tables.

Reads (never imports) /repo/jumanji/environments/logic/rubiks_cube/{utils.py,constants.py} and regenerates
coq/Gen/RubikTables.v with

  * the enum values of `Face` and `CubeMovementAmount` (constants.py, in definition = iteration order),
  * for each of generate_{up,front,right,back,left,down}_move the turning face, the four adjacent faces and the
    column / row index tables, as SYNTAX (`rvec`) of the small grammar the code uses
         vec  ::= jnp.arange(cube_size) | jnp.repeat(scal, cube_size) | jnp.flip(vec)
         scal ::= depth | cube_size - 1 - depth
         tab  ::= jnp.concatenate([vec, vec, vec, vec])          faces ::= jnp.array|jnp.stack([Face.X.value, ...])
    together with the evaluator, i.e. Coq functions of the cube size n and the depth d (`<face>_columns n d`, ...),
  * the order of the move generators and the loop nesting of `generate_all_moves`.

It also pins (by comparing `ast.dump`s with embedded reference snippets) the parts that coq/Model/RubiksCube.v models
by hand: the body of `do_rotation`, `rotate_cube`, `flatten_action`/`unflatten_action`, `scramble_solved_cube`,
`is_solved`, `make_solved_cube`.  ANY deviation from the recognised grammar / pinned text raises (the run then reports
the tie as broken); nothing is guessed.  The generated tables are additionally checked by VALUE against the real
`rotate_cube` in harness/envs/rubiks_cube.py (T3)."""
import ast
import os
import textwrap

REPO = os.environ.get("VERIF_REPO", "/repo")
DIR = os.path.join(REPO, "jumanji", "environments", "logic", "rubiks_cube")
FACES = ["up", "front", "right", "back", "left", "down"]


class Unrecognised(Exception):
    pass


OUTPUTS = ["RubikTables.v"]

def _fail(node, msg):
    raise Unrecognised("rubik_tables: %s (line %s): %s" % (msg, getattr(node, "lineno", "?"),
                                                           ast.dump(node)[:300] if isinstance(node, ast.AST) else node))


def _strip_doc(body):
    if body and isinstance(body[0], ast.Expr) and isinstance(body[0].value, ast.Constant) and isinstance(body[0].value.value, str):
        return body[1:]
    return body


def _dump(nodes):
    return "\n".join(ast.dump(n, annotate_fields=True, include_attributes=False) for n in nodes)


# ---------------------------------------------------------------- constants.py
def _enum(tree, cls):
    """-> ordered [(NAME, int)] of `class cls(Enum)`; only `NAME = <int literal>` lines are accepted."""
    found = [n for n in tree.body if isinstance(n, ast.ClassDef) and n.name == cls]
    if len(found) != 1:
        _fail(tree, "expected exactly one class %s" % cls)
    c = found[0]
    if len(c.bases) != 1 or not (isinstance(c.bases[0], ast.Name) and c.bases[0].id == "Enum") or c.keywords or c.decorator_list:
        _fail(c, "%s is not a plain Enum" % cls)
    out = []
    for st in _strip_doc(c.body):
        if not (isinstance(st, ast.Assign) and len(st.targets) == 1 and isinstance(st.targets[0], ast.Name)):
            _fail(st, "unexpected statement in enum %s" % cls)
        v = st.value
        if isinstance(v, ast.UnaryOp) and isinstance(v.op, ast.USub) and isinstance(v.operand, ast.Constant) and type(v.operand.value) is int:
            val = -v.operand.value
        elif isinstance(v, ast.Constant) and type(v.value) is int:
            val = v.value
        else:
            _fail(st, "enum value is not an integer literal")
        out.append((st.targets[0].id, val))
    if len({n for n, _ in out}) != len(out) or len({v for _, v in out}) != len(out):
        _fail(c, "duplicate names/values in enum %s (aliases change iteration order)" % cls)
    return out


# ---------------------------------------------------------------- the table grammar
def _is_name(n, s):
    return isinstance(n, ast.Name) and n.id == s


def _jnp_call(n, fn):
    return (isinstance(n, ast.Call) and isinstance(n.func, ast.Attribute) and n.func.attr == fn
            and _is_name(n.func.value, "jnp") and not n.keywords)


def _scal(n):
    if _is_name(n, "depth"):
        return "SDepth"
    if (isinstance(n, ast.BinOp) and isinstance(n.op, ast.Sub) and _is_name(n.right, "depth")
            and isinstance(n.left, ast.BinOp) and isinstance(n.left.op, ast.Sub) and _is_name(n.left.left, "cube_size")
            and isinstance(n.left.right, ast.Constant) and n.left.right.value == 1 and type(n.left.right.value) is int):
        return "SOpp"
    _fail(n, "scalar is neither `depth` nor `cube_size - 1 - depth`")


def _vec(n):
    if _jnp_call(n, "arange") and len(n.args) == 1 and _is_name(n.args[0], "cube_size"):
        return "VArange"
    if _jnp_call(n, "repeat") and len(n.args) == 2 and _is_name(n.args[1], "cube_size"):
        return "VRep " + _scal(n.args[0])
    if _jnp_call(n, "flip") and len(n.args) == 1:
        return "VFlip (%s)" % _vec(n.args[0])
    _fail(n, "vector expression outside the grammar arange/repeat/flip")


def _cat(n):
    if not (_jnp_call(n, "concatenate") and len(n.args) == 1 and isinstance(n.args[0], ast.List)):
        _fail(n, "expected jnp.concatenate([...])")
    vs = [_vec(e) for e in n.args[0].elts]
    if len(vs) != 4:
        _fail(n, "expected four segments")
    return vs


def _face_value(n, faces):
    if (isinstance(n, ast.Attribute) and n.attr == "value" and isinstance(n.value, ast.Attribute)
            and _is_name(n.value.value, "Face") and n.value.attr in faces):
        return faces[n.value.attr]
    _fail(n, "expected Face.<NAME>.value")


def _face_list(n, faces):
    if not ((_jnp_call(n, "array") or _jnp_call(n, "stack")) and len(n.args) == 1 and isinstance(n.args[0], ast.List)):
        _fail(n, "expected jnp.array([Face.X.value, ...])")
    fs = [_face_value(e, faces) for e in n.args[0].elts]
    if len(fs) != 4:
        _fail(n, "expected four adjacent faces")
    return fs


def _move_table(fn, which, faces):
    """generate_<which>_move -> dict(face, adj, cols, rows)"""
    a = fn.args
    if [x.arg for x in a.args] != ["amount", "depth"] or a.vararg or a.kwarg or a.kwonlyargs or a.defaults or fn.decorator_list:
        _fail(fn, "unexpected signature")
    body = _strip_doc(fn.body)
    if not (len(body) == 2 and isinstance(body[0], ast.FunctionDef) and isinstance(body[1], ast.Return)
            and _is_name(body[1].value, body[0].name)):
        _fail(fn, "expected `def inner(cube): ...; return inner`")
    inner = body[0]
    ia = inner.args
    if [x.arg for x in ia.args] != ["cube"] or ia.vararg or ia.kwarg or ia.kwonlyargs or ia.defaults or inner.decorator_list:
        _fail(inner, "unexpected inner signature")
    st = _strip_doc(inner.body)
    if len(st) != 5:
        _fail(inner, "expected 5 statements in the move function")
    ref = ast.parse("cube_size = cube.shape[-1]").body[0]
    if _dump([st[0]]) != _dump([ref]):
        _fail(st[0], "expected `cube_size = cube.shape[-1]`")
    got = {}
    for s, name in zip(st[1:4], ["adjacent_faces", "adjacent_faces_columns", "adjacent_faces_rows"]):
        if not (isinstance(s, ast.Assign) and len(s.targets) == 1 and _is_name(s.targets[0], name)):
            _fail(s, "expected assignment to %s" % name)
        got[name] = s.value
    ret = st[4]
    if not (isinstance(ret, ast.Return) and isinstance(ret.value, ast.Call) and _is_name(ret.value.func, "do_rotation")
            and not ret.value.args):
        _fail(ret, "expected `return do_rotation(<keywords>)`")
    kw = {k.arg: k.value for k in ret.value.keywords}
    if len(kw) != len(ret.value.keywords) or set(kw) != {"cube", "face", "amount", "depth", "adjacent_faces", "adjacent_faces_columns", "adjacent_faces_rows"}:
        _fail(ret, "unexpected keywords in do_rotation call")
    for k in ("cube", "amount", "depth", "adjacent_faces", "adjacent_faces_columns", "adjacent_faces_rows"):
        if not _is_name(kw[k], k):
            _fail(ret, "keyword %s is not passed the variable of the same name" % k)
    f = kw["face"]
    if not (isinstance(f, ast.Attribute) and _is_name(f.value, "Face") and f.attr in faces):
        _fail(ret, "face= is not Face.<NAME>")
    if f.attr != which.upper():
        _fail(ret, "generate_%s_move turns Face.%s" % (which, f.attr))
    return dict(face=faces[f.attr], adj=_face_list(got["adjacent_faces"], faces),
                cols=_cat(got["adjacent_faces_columns"]), rows=_cat(got["adjacent_faces_rows"]))


# ---------------------------------------------------------------- pinned (hand-modelled) functions
PINNED = {
    "do_rotation": """
        def do_rotation(cube, face, amount, depth, adjacent_faces, adjacent_faces_columns, adjacent_faces_rows):
            cube_size = cube.shape[-1]
            if depth == 0:
                cube = cube.at[face.value].set(jnp.rot90(cube[face.value], k=-amount.value))
            adjacent_faces = jnp.repeat(adjacent_faces, cube_size)
            cube = cube.at[adjacent_faces, adjacent_faces_rows, adjacent_faces_columns].set(
                jnp.roll(cube[adjacent_faces, adjacent_faces_rows, adjacent_faces_columns], shift=cube_size * amount.value))
            return cube
    """,
    "make_solved_cube": """
        def make_solved_cube(cube_size):
            return jnp.stack([face.value * jnp.ones((cube_size, cube_size), dtype=jnp.int8) for face in Face])
    """,
    "is_solved": """
        def is_solved(cube):
            max_sticker_by_side = jnp.max(cube, axis=(-1, -2))
            min_sticker_by_side = jnp.min(cube, axis=(-1, -2))
            return jnp.array_equal(max_sticker_by_side, min_sticker_by_side)
    """,
    "unflatten_action": """
        def unflatten_action(flattened_action, cube_size):
            face_and_depth, amount = jnp.divmod(flattened_action, len(CubeMovementAmount))
            face, depth = jnp.divmod(face_and_depth, cube_size // 2)
            return jnp.stack([face, depth, amount], axis=0)
    """,
    "flatten_action": """
        def flatten_action(unflattened_action, cube_size):
            face, depth, amount = unflattened_action
            return (face * len(CubeMovementAmount) * (cube_size // 2) + depth * len(CubeMovementAmount) + amount)
    """,
    "rotate_cube": """
        def rotate_cube(cube, flattened_action):
            all_moves = generate_all_moves(cube_size=cube.shape[-1])
            moved_cube = jax.lax.switch(flattened_action, all_moves, cube)
            return moved_cube
    """,
    "scramble_solved_cube": """
        def scramble_solved_cube(flattened_actions_in_scramble, cube_size):
            cube = make_solved_cube(cube_size=cube_size)
            cube, _ = jax.lax.scan(lambda *args: (rotate_cube(*args), None), cube, flattened_actions_in_scramble)
            return cube
    """,
}


def _normalise(fn):
    """body without docstring, argument names only (annotations dropped)"""
    a = fn.args
    if a.vararg or a.kwarg or a.kwonlyargs or a.defaults or a.posonlyargs or fn.decorator_list:
        _fail(fn, "unexpected signature of pinned function")
    return ",".join(x.arg for x in a.args) + "\n" + _dump(_strip_doc(fn.body))


def _check_pinned(funcs):
    for name, src in PINNED.items():
        if name not in funcs:
            _fail(name, "function %s not found" % name)
        ref = ast.parse(textwrap.dedent(src)).body[0]
        if _normalise(funcs[name]) != _normalise(ref):
            _fail(funcs[name], "%s differs from the text that coq/Model/RubiksCube.v models by hand" % name)


def _all_moves(fn):
    """generate_all_moves: [f(amount, depth) for f in [gens...] for depth in range(cube_size // 2) for amount in CubeMovementAmount]"""
    body = _strip_doc(fn.body)
    if [x.arg for x in fn.args.args] != ["cube_size"] or len(body) != 1 or not isinstance(body[0], ast.Return):
        _fail(fn, "unexpected generate_all_moves")
    lc = body[0].value
    if not (isinstance(lc, ast.ListComp) and len(lc.generators) == 3 and all((not g.ifs) and not g.is_async for g in lc.generators)):
        _fail(fn, "expected a 3-generator list comprehension")
    ref = ast.parse("f(amount, depth)").body[0].value
    if _dump([lc.elt]) != _dump([ref]):
        _fail(lc.elt, "expected element f(amount, depth)")
    g0, g1, g2 = lc.generators
    if not (_is_name(g0.target, "f") and isinstance(g0.iter, ast.List) and all(isinstance(e, ast.Name) for e in g0.iter.elts)):
        _fail(fn, "outer loop is not `for f in [generate_..._move, ...]`")
    if not (_is_name(g1.target, "depth") and _dump([g1.iter]) == _dump([ast.parse("range(cube_size // 2)").body[0].value])):
        _fail(fn, "middle loop is not `for depth in range(cube_size // 2)`")
    if not (_is_name(g2.target, "amount") and _is_name(g2.iter, "CubeMovementAmount")):
        _fail(fn, "inner loop is not `for amount in CubeMovementAmount`")
    order = []
    for e in g0.iter.elts:
        if not (e.id.startswith("generate_") and e.id.endswith("_move") and e.id[9:-5] in FACES):
            _fail(e, "unknown move generator")
        order.append(e.id[9:-5])
    if len(set(order)) != len(order):
        _fail(fn, "a move generator is listed twice")
    return order


def _z(x):
    return str(x) if x >= 0 else "(%d)" % x


def _zl(xs):
    return "[" + "; ".join(_z(x) for x in xs) + "]"


PRELUDE = """(* GENERATED by harness/translators/rubik_tables.py (T1: Python-ast translation, fail-closed) from
   jumanji/environments/logic/rubiks_cube/utils.py and constants.py.  Do not edit: rewritten on every run. *)
Require Import JV.Base.Prelude.

(* the grammar of the index tables:   scal ::= depth | cube_size - 1 - depth
   vec ::= jnp.arange(cube_size) | jnp.repeat(scal, cube_size) | jnp.flip(vec)     table ::= jnp.concatenate([vec; vec; vec; vec]) *)
Inductive rscal := SDepth | SOpp.
Inductive rvec := VArange | VRep (s : rscal) | VFlip (v : rvec).
(* turning face, adjacent faces (in clockwise order), column table, row table *)
Record rtable := mkRT { t_face : Z; t_adj : list Z; t_cols : list rvec; t_rows : list rvec }.

Definition eval_scal (n d : Z) (s : rscal) : Z := match s with SDepth => d | SOpp => n - 1 - d end.
Fixpoint eval_vec (n d : Z) (v : rvec) : list Z :=
  match v with
  | VArange => zrange n
  | VRep s => repeat (eval_scal n d s) (Z.to_nat n)
  | VFlip v => rev (eval_vec n d v)
  end.
Definition eval_cat (n d : Z) (vs : list rvec) : list Z := concat (map (eval_vec n d) vs).
"""


def generate():
    ctree = ast.parse(open(os.path.join(DIR, "constants.py")).read())
    utree = ast.parse(open(os.path.join(DIR, "utils.py")).read())
    face_enum = _enum(ctree, "Face")
    amount_enum = _enum(ctree, "CubeMovementAmount")
    faces = dict(face_enum)
    if sorted(faces) != sorted(f.upper() for f in FACES):
        _fail(ctree, "Face members are not UP/FRONT/RIGHT/BACK/LEFT/DOWN")
    funcs = {}
    for n in utree.body:
        if isinstance(n, ast.FunctionDef):
            if n.name in funcs:
                _fail(n, "function defined twice")
            funcs[n.name] = n
    _check_pinned(funcs)
    if "generate_all_moves" not in funcs:
        _fail(utree, "generate_all_moves not found")
    order = _all_moves(funcs["generate_all_moves"])
    tabs = {}
    for w in FACES:
        name = "generate_%s_move" % w
        if name not in funcs:
            _fail(utree, "%s not found" % name)
        tabs[w] = _move_table(funcs[name], w, faces)
    out = [PRELUDE]
    out.append("(* constants.py: Face (definition order) *)")
    for nme, v in face_enum:
        out.append("Definition face_%s : Z := %s." % (nme, _z(v)))
    out.append("Definition rubik_faces : list Z := %s.   (* iteration order of `for face in Face` *)" % _zl([v for _, v in face_enum]))
    out.append("(* constants.py: CubeMovementAmount, in iteration order (%s) *)" % ", ".join(n for n, _ in amount_enum))
    out.append("Definition rubik_amounts : list Z := %s.\n" % _zl([v for _, v in amount_enum]))
    for w in FACES:
        t = tabs[w]
        out.append("(* generate_%s_move *)" % w)
        out.append("Definition tab_%s : rtable :=\n  mkRT %s %s\n    [%s]\n    [%s]." % (
            w, _z(t["face"]), _zl(t["adj"]), "; ".join(t["cols"]), "; ".join(t["rows"])))
        out.append("Definition %s_adjacent_faces : list Z := t_adj tab_%s." % (w, w))
        out.append("Definition %s_columns (n d : Z) : list Z := eval_cat n d (t_cols tab_%s)." % (w, w))
        out.append("Definition %s_rows (n d : Z) : list Z := eval_cat n d (t_rows tab_%s).\n" % (w, w))
    out.append("(* generate_all_moves: [f(amount, depth) for f in <this order> for depth in range(cube_size // 2) for amount in CubeMovementAmount] *)")
    out.append("Definition rubik_tables : list rtable := [%s]." % "; ".join("tab_" + w for w in order))
    return {"RubikTables.v": "\n".join(out) + "\n"}


if __name__ == "__main__":
    print(generate()["RubikTables.v"])
