"""T1 translator: the time-limit WIRING of every environment, from the source syntax of /repo to Coq (coq/Gen/TimeLimitSrc.v).

For each environment module that has a `time_limit` constructor argument the translator reads, with Python's `ast`,
  (1) the default of the `time_limit` parameter of `__init__` (an int literal or None),
  (2) the expression assigned to `self.time_limit` in `__init__`      -> `<env>_limit_src : option Z -> Z -> Z -> option Z`
      (Python semantics kept: `a or b`, None / 0 falsy; `self.num_rows`, `self.num_cols` are parameters),
  (3) every comparison in the class that mentions `self.time_limit`  -> `<env>_limit_test : Z -> Z -> bool`
      (there must be exactly one; the counter operand's text is recorded in a comment, it is tied by correspondence).
MultiCVRP and FlatPack have no time limit but a structural horizon written as a comparison on `step_count`; those
comparisons (three sites for MultiCVRP: env.py and both reward functions) are translated the same way.

Fail-closed: anything outside the grammar raises, the run then reports the tie as broken.  Theorems over the generated
definitions live in coq/Props/C11_Wiring.v and are re-proved on every run, for EVERY value of the limit."""
import ast
import os

from harness import core

ENVS = [  # (coq prefix, path under jumanji/environments)
    ("snake", "routing/snake/env.py"), ("cleaner", "routing/cleaner/env.py"), ("lbf", "routing/lbf/env.py"),
    ("pac_man", "routing/pac_man/env.py"), ("maze", "routing/maze/env.py"), ("mmst", "routing/mmst/env.py"),
    ("connector", "routing/connector/env.py"), ("robot_warehouse", "routing/robot_warehouse/env.py"),
    ("sokoban", "routing/sokoban/env.py"), ("tetris", "packing/tetris/env.py"),
    ("sliding_tile_puzzle", "logic/sliding_tile_puzzle/env.py"), ("rubiks_cube", "logic/rubiks_cube/env.py"),
]
HORIZONS = [  # (coq name, path, attributes that may occur in the bound = parameters of the generated test, number of sites)
    ("multi_cvrp_env", "routing/multi_cvrp/env.py", ["_num_customers", "_num_vehicles"], 1),
    ("multi_cvrp_reward", "routing/multi_cvrp/reward.py", ["_num_customers", "_num_vehicles"], 2),
    ("flat_pack_env", "packing/flat_pack/env.py", ["num_blocks"], 1),
]
OPS = {ast.GtE: ">=?", ast.Gt: ">?", ast.LtE: "<=?", ast.Lt: "<?", ast.Eq: "=?"}
ARITH = {ast.Mult: "*", ast.Add: "+", ast.Sub: "-"}


class Unsupported(Exception):
    pass


OUTPUTS = ["TimeLimitSrc.v"]

def _src(path):
    p = os.path.join(core.REPO, "jumanji", "environments", path)
    return ast.parse(open(p).read(), filename=p)


def _is_self_attr(n, name=None):
    return isinstance(n, ast.Attribute) and isinstance(n.value, ast.Name) and n.value.id == "self" and (name is None or n.attr == name)


def tr_value(n):
    """expression of Python type Optional[int] -> Coq term of type option Z"""
    if isinstance(n, ast.Name) and n.id == "time_limit":
        return "time_limit"
    if isinstance(n, ast.Constant) and n.value is None:
        return "None"
    if isinstance(n, ast.BoolOp) and isinstance(n.op, ast.Or):
        out = tr_value(n.values[-1])
        for v in reversed(n.values[:-1]):
            out = "(py_or %s %s)" % (tr_value(v), out)
        return out
    return "(Some %s)" % tr_int(n)


def tr_int(n):
    """expression of Python type int -> Coq term of type Z"""
    if isinstance(n, ast.Constant) and isinstance(n.value, int) and not isinstance(n.value, bool):
        return "(%d)" % n.value
    if _is_self_attr(n) and n.attr in ("num_rows", "num_cols"):
        return n.attr
    if isinstance(n, ast.BinOp) and type(n.op) in ARITH:
        return "(%s %s %s)" % (tr_int(n.left), ARITH[type(n.op)], tr_int(n.right))
    raise Unsupported("integer expression outside the grammar: " + ast.dump(n)[:200])


def env_class(tree):
    for node in tree.body:
        if isinstance(node, ast.ClassDef) and any("Environment" in ast.unparse(b) for b in node.bases):
            return node
    raise Unsupported("no Environment subclass")


def wiring(prefix, path):
    cls = env_class(_src(path))
    init = [f for f in cls.body if isinstance(f, ast.FunctionDef) and f.name == "__init__"]
    if len(init) != 1:
        raise Unsupported("%s: __init__ not found" % prefix)
    init = init[0]
    args = init.args
    names = [a.arg for a in args.args]
    if "time_limit" not in names or args.kwonlyargs:
        raise Unsupported("%s: no positional-or-keyword time_limit parameter" % prefix)
    i = names.index("time_limit") - (len(names) - len(args.defaults))
    if i < 0:
        raise Unsupported("%s: time_limit has no default" % prefix)
    d = args.defaults[i]
    if isinstance(d, ast.Constant) and d.value is None:
        default = "None"
    elif isinstance(d, ast.Constant) and isinstance(d.value, int) and not isinstance(d.value, bool):
        default = "(Some (%d))" % d.value
    else:
        raise Unsupported("%s: default of time_limit is not a literal" % prefix)
    assigns = [s for s in ast.walk(init) if isinstance(s, ast.Assign) and any(_is_self_attr(t, "time_limit") for t in s.targets)]
    others = [s for f in cls.body if isinstance(f, ast.FunctionDef) and f.name != "__init__" for s in ast.walk(f)
              if isinstance(s, (ast.Assign, ast.AugAssign, ast.AnnAssign))
              and any(_is_self_attr(t, "time_limit") for t in (s.targets if isinstance(s, ast.Assign) else [s.target]))]
    if len(assigns) != 1 or len(assigns[0].targets) != 1 or others:
        raise Unsupported("%s: self.time_limit must be assigned exactly once, in __init__" % prefix)
    # the assignment must not be under a condition / loop
    if assigns[0] not in init.body:
        raise Unsupported("%s: self.time_limit assigned inside a nested statement" % prefix)
    rhs = tr_value(assigns[0].value)
    tests = []
    for f in cls.body:
        if isinstance(f, ast.FunctionDef):
            for c in ast.walk(f):
                if isinstance(c, ast.Compare) and any(_is_self_attr(x, "time_limit") for x in [c.left] + c.comparators):
                    tests.append(c)
    if len(tests) != 1:
        raise Unsupported("%s: expected exactly one comparison with self.time_limit, found %d" % (prefix, len(tests)))
    c = tests[0]
    if len(c.ops) != 1 or type(c.ops[0]) not in OPS:
        raise Unsupported("%s: comparison outside the grammar" % prefix)
    if _is_self_attr(c.comparators[0], "time_limit") and not _is_self_attr(c.left, "time_limit"):
        l, r, counter = "count", "limit", ast.unparse(c.left)
    elif _is_self_attr(c.left, "time_limit"):
        l, r, counter = "limit", "count", ast.unparse(c.comparators[0])
    else:
        raise Unsupported("%s: comparison shape" % prefix)
    if not (counter.endswith("step_count") or counter == "steps"):
        raise Unsupported("%s: the limit is compared with %r, not a step counter" % (prefix, counter))
    return ("Definition %s_default : option Z := %s.\n" % (prefix, default)
            + "Definition %s_limit_src (time_limit : option Z) (num_rows num_cols : Z) : option Z := %s.\n" % (prefix, rhs)
            + "(* source: `%s` *)\n" % ast.unparse(c)
            + "Definition %s_limit_test (count limit : Z) : bool := %s %s %s.\n" % (prefix, l, OPS[type(c.ops[0])], r))


def tr_bound(n, params):
    if isinstance(n, ast.Constant) and isinstance(n.value, int) and not isinstance(n.value, bool):
        return "(%d)" % n.value
    if isinstance(n, ast.Attribute) and isinstance(n.value, ast.Name) and n.value.id in ("self", "state", "new_state", "next_state"):
        params.add(n.attr)
        return n.attr.lstrip("_")
    if isinstance(n, ast.BinOp) and type(n.op) in ARITH:
        return "(%s %s %s)" % (tr_bound(n.left, params), ARITH[type(n.op)], tr_bound(n.right, params))
    raise Unsupported("bound outside the grammar: " + ast.dump(n)[:200])


def horizons(name, path, attrs):
    tree = _src(path)
    out = []
    for cls in [n for n in tree.body if isinstance(n, ast.ClassDef)]:
        for f in [n for n in cls.body if isinstance(n, ast.FunctionDef)]:
            for c in ast.walk(f):
                if isinstance(c, ast.Compare) and isinstance(c.left, ast.Attribute) and c.left.attr == "step_count" and len(c.ops) == 1 \
                        and type(c.ops[0]) in OPS and any(a in ast.unparse(c.comparators[0]) for a in attrs):
                    params = set()
                    b = tr_bound(c.comparators[0], params)
                    if not params <= set(attrs):
                        raise Unsupported("%s: horizon bound mentions %s" % (name, sorted(params)))
                    out.append((cls.name, f.name, ast.unparse(c), "count %s %s" % (OPS[type(c.ops[0])], b)))
    return out


def generate():
    txt = ["(* GENERATED by harness/translators/time_limit.py from /repo's current source -- do not edit *)\n"
           "Require Import ZArith Bool.\nOpen Scope Z_scope.\n"
           "(* Python: `a or b` on Optional[int] -- None and 0 are falsy *)\n"
           "Definition py_or (a b : option Z) : option Z := match a with Some t => if t =? 0 then b else a | None => b end.\n"]
    for prefix, path in ENVS:
        txt.append("(* ---- %s : jumanji/environments/%s *)\n" % (prefix, path) + wiring(prefix, path))
    for name, path, attrs, sites in HORIZONS:
        hs = horizons(name, path, attrs)
        if len(hs) != sites:
            raise Unsupported("%s: expected %d horizon comparisons on step_count, found %d" % (name, sites, len(hs)))
        for i, (cls, fn, src, body) in enumerate(hs):
            txt.append("(* ---- %s.%s in jumanji/environments/%s : `%s` *)\n" % (cls, fn, path, src)
                       + "Definition %s_horizon_test_%d (count %s : Z) : bool := %s.\n"
                       % (name, i, " ".join(a.lstrip("_") for a in attrs), body))
    return {"TimeLimitSrc.v": "".join(txt)}
