"""Constructor-wiring probe (supporting search, not a proof): every float-valued constructor argument of an environment
class, of the reward / done function classes and generator classes of its package must be STORED as given — in particular
an explicit 0.0 (the classic `x or default` slip replaces it by the default).  For each class with float parameters the
probe builds the object with pairwise distinct dyadic values, one parameter at a time set to exactly 0.0, and requires every
passed value to be found among the object's float-valued attributes (robust to attribute renaming).  Classes that need
non-float required arguments are built with the package's defaults when possible, otherwise skipped (counted).
Failures are attributed to C08 (reward / penalty / coefficient constants) — they are the parameters of the documented
objective."""
import importlib
import inspect
import pkgutil

import numpy as np

VALUES = [1.5, -2.25, 3.75, -0.5, 2.5, -1.25]


def _float_params(cls):
    try:
        sig = inspect.signature(cls.__init__)
    except (TypeError, ValueError):
        return None, None
    fl, other_required = [], []
    for name, p in list(sig.parameters.items())[1:]:
        if p.kind in (p.VAR_POSITIONAL, p.VAR_KEYWORD):
            continue
        ann = p.annotation
        is_float = ann is float or ann == "float" or isinstance(p.default, float) or str(ann) in ("typing.Optional[float]", "Optional[float]")
        if is_float:
            fl.append(name)
        elif p.default is inspect._empty:
            other_required.append(name)
    return fl, other_required


def _float_attrs(obj):
    out = []
    for k, v in vars(obj).items():
        try:
            a = np.asarray(v)
            if a.shape == () and a.dtype.kind in "fiu" and not isinstance(v, bool):
                out.append(float(a))
        except Exception:
            pass
    return out


def classes_of(env):
    """the environment class + every class defined in its package's reward / done / generator / env modules"""
    pkg = type(env).__module__.rsplit(".", 1)[0]
    out = [type(env)]
    try:
        P = importlib.import_module(pkg)
        for m in pkgutil.iter_modules(P.__path__):
            if m.name in ("reward", "done", "generator", "observer"):
                M = importlib.import_module(pkg + "." + m.name)
                for _, c in inspect.getmembers(M, inspect.isclass):
                    if c.__module__ == M.__name__ and not inspect.isabstract(c):
                        out.append(c)
    except Exception:
        pass
    return out


def analyze(kit):
    r = kit.res["C08"]
    cfgs = kit.configs()
    if not cfgs:
        return
    env = kit.env(cfgs[0])
    for cls in classes_of(env):
        fl, req = _float_params(cls)
        if not fl:
            continue
        if req:
            r.count("wiring:skipped-needs-nonfloat-args")
            continue
        for zero in fl:
            kw = {n: (0.0 if n == zero else VALUES[i % len(VALUES)]) for i, n in enumerate(fl)}
            try:
                obj = cls(**kw)
            except Exception:
                r.count("wiring:constructor-rejected-probe")
                continue
            stored = _float_attrs(obj)
            r.evaluations += 1
            r.distinct.add((kit.name, cls.__name__, zero))
            r.count("wiring:probed")
            missing = [n for n, v in kw.items() if not any(abs(v - s) < 1e-12 for s in stored)]
            if missing:
                kit.fail(["C08"], "%s.%s does not store the float constant it was constructed with (explicit value replaced)" % (kit.name, cls.__name__),
                         dict(cfg="*", op="ctor-wiring", cls=cls.__name__), dict(passed=kw, stored=stored, missing=missing))
