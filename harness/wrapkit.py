"""C13 / C14 / C15 on every environment: the REAL wrappers of jumanji/wrappers.py against coq/Model/Wrappers.v.

The wrapper model is generic in the environment.  For the correspondence it is instantiated with TABLES of the native
environment's behaviour: the harness runs the unwrapped environment, names every state / observation / key / reward /
discount it meets by an integer id (content hash) and sends the graphs of reset, step, state.key, split-left and
split-right (decoys included: the right halves and their resets are in the tables too, so a wrapper that derived the
wrong key would be predicted wrongly by no one but itself).  The extracted model predicts the ids of everything the real
wrapper must return; any difference is reported with the op history as replay.
Model-free laws are checked side by side as well (leaf-exact comparisons through the C19 equality helper)."""
import hashlib

import numpy as np

from harness import rollout as R

PROPS = ["C13", "C14", "C15"]


class Ids:
    """content -> small integer id (ids start at 10 so they never collide with the model's -1 / -2 markers).
    Integer / bool leaves must match exactly.  Float leaves match within 1e-6 relative: two different XLA programs (vmap of a
    cond vs lax.map, jit vs jit-of-scan) may differ in the last ulp of a float result (x/c compiled as x*(1/c)); such values
    are the same value for every property about the wrappers, and naming them by exact bytes raised a false alarm."""

    def __init__(self):
        self.buckets = {}
        self.n = 0

    def __call__(self, tree):
        import jax
        h = hashlib.sha1()
        floats = []
        for l in jax.tree_util.tree_leaves(tree):
            a = np.asarray(l)
            h.update(str(a.dtype).encode() + str(a.shape).encode())
            if a.dtype.kind == "f":
                floats.append(a.astype(np.float64).reshape(-1))
            else:
                h.update(a.tobytes())
        k = h.digest()
        fl = np.concatenate(floats) if floats else np.zeros(0)
        for (ref, i) in self.buckets.setdefault(k, []):
            if ref.shape == fl.shape and np.allclose(ref, fl, rtol=1e-6, atol=1e-7, equal_nan=True):
                return i
        self.n += 1
        self.buckets[k].append((fl, 9 + self.n))
        return 9 + self.n


def named(x):
    """independent observation -> nested dict of numpy leaves (by FIELD NAME), for comparison with jumanji_to_gym_obs"""
    import jax.numpy as jnp
    if hasattr(x, "__dataclass_fields__"):
        return {f: named(getattr(x, f)) for f in x.__dataclass_fields__}
    if hasattr(x, "_fields"):
        return {f: named(getattr(x, f)) for f in x._fields}
    if isinstance(x, dict):
        return {k: named(v) for k, v in x.items()}
    return np.asarray(x)


def flat_named(d, prefix=""):
    if isinstance(d, dict):
        out = []
        for k in sorted(d):
            out += flat_named(d[k], prefix + "/" + str(k))
        return out
    a = np.asarray(d)
    return [(prefix, str(a.dtype), a.shape, a.tobytes())]


def enc_tab(rows):
    w = len(rows[0]) if rows else 0
    return [len(rows), w] + [int(x) for r in rows for x in r]


class Native:
    """jitted native calls + table recording"""

    def __init__(self, env, ids):
        import jax
        self.env, self.ids = env, ids
        self.jreset, self.jstep = jax.jit(env.reset), jax.jit(env.step)
        self.t_reset, self.t_step, self.t_skey, self.t_left, self.t_right, self.t_seed = {}, {}, {}, {}, {}, {}
        self.zero_disc = set()

    def rec_ts(self, s, ts):
        ids = self.ids
        ext = {k: v for k, v in (ts.extras or {}).items() if k != "next_obs"}
        d = np.asarray(ts.discount)
        did = ids(("disc", d))
        if not d.astype(bool).any():
            self.zero_disc.add(did)
        return [ids(s), int(ts.step_type), ids(("obs", ts.observation)), ids(("rew", np.asarray(ts.reward))), did, ids(("ext", ext))]

    def key_id(self, key):
        return self.ids(("key", np.asarray(key)))

    def split(self, key):
        import jax
        kid = self.key_id(key)
        l, r = jax.random.split(key)
        self.t_left[kid] = self.key_id(l)
        self.t_right[kid] = self.key_id(r)
        return l, r

    def reset(self, key):
        s, ts = self.jreset(key)
        self.t_reset[self.key_id(key)] = self.rec_ts(s, ts)
        self.t_skey[self.ids(s)] = self.key_id(s.key)
        return s, ts

    def step(self, s, a):
        s2, ts = self.jstep(s, a)
        self.t_step[(self.ids(s), self.ids(("act", np.asarray(a))))] = self.rec_ts(s2, ts)
        self.t_skey[self.ids(s2)] = self.key_id(s2.key)
        return s2, ts

    def explore_reset_candidates(self, s2):
        """record what reset would give for BOTH halves of split(state.key) and for state.key itself (decoys)"""
        l, r = self.split(s2.key)
        for k in (l, r, s2.key):
            self.reset(k)
        return l

    def seed(self, n):
        import jax
        k = jax.random.PRNGKey(n)
        self.t_seed[n] = self.key_id(k)
        return k

    def tables(self):
        return (enc_tab([[k] + v for k, v in self.t_reset.items()]) + enc_tab([[k[0], k[1]] + v for k, v in self.t_step.items()])
                + enc_tab([[k, v] for k, v in self.t_skey.items()]) + enc_tab([[k, v] for k, v in self.t_left.items()])
                + enc_tab([[k, v] for k, v in self.t_right.items()]) + enc_tab([[k, v] for k, v in self.t_seed.items()]))


def wrapper_out(nat, s, ts):
    """(sid, ty, obs, rew, disc, ext, next_obs) of what a REAL wrapper returned"""
    ids = nat.ids
    ex = ts.extras or {}
    ext = {k: v for k, v in ex.items() if k != "next_obs"}
    nx = ids(("obs", ex["next_obs"])) if "next_obs" in ex else -2
    return [ids(s), int(ts.step_type), ids(("obs", ts.observation)), ids(("rew", np.asarray(ts.reward))),
            ids(("disc", np.asarray(ts.discount))), ids(("ext", ext)), nx]


def pick_configs(kit):
    cfgs = [c for c in kit.configs() if c["steps"] >= 4]
    cfgs.sort(key=lambda c: c["steps"])
    if kit.tier == "quick":
        # one mid-sized configuration: a time limit of a few steps gives none/some/all termination patterns in a batch
        # (a limit of 1 would end every element on every step)
        return [cfgs[len(cfgs) // 2]] if len(cfgs) > 2 else cfgs[:1]
    return cfgs


def analyze(kit):
    import jax
    import jax.numpy as jnp
    from jumanji import wrappers as W
    from jumanji.testing import pytrees
    name = kit.name
    r13, r14, r15 = kit.res["C13"], kit.res["C14"], kit.res["C15"]
    calls, metas = [], []
    for cfg in pick_configs(kit):
        env = kit.env(cfg)
        sampler = R.make_sampler(env)
        jsample = jax.jit(lambda k, o: sampler(k, o, 0.35))
        T = min(cfg["steps"] + 4, 26 if kit.tier == "quick" else 60)
        base = jax.random.PRNGKey(kit.seed * 13 + 5)
        # ------------------------------------------------------------------ C13: AutoResetWrapper, both settings
        for nx in (False, True):
            ids = Ids()
            nat = Native(env, ids)
            ar = W.AutoResetWrapper(env, next_obs_in_extras=nx)
            jstep = jax.jit(ar.step)
            k0 = jax.random.fold_in(base, int(nx))
            s, ts = jax.jit(ar.reset)(k0)
            ns, nts = nat.reset(k0)
            r13.evaluations += 1
            if ids(s) != ids(ns) or (nx and "next_obs" not in (ts.extras or {})):
                kit.fail(["C13"], "AutoResetWrapper.reset differs from the environment's reset", dict(cfg=cfg["label"], op="ar-reset", nx=nx), dict(seed=kit.seed))
            acts, outs, hist = [], [], []
            episodes, reset_keys = 0, []
            for t in range(T):
                a = jsample(jax.random.fold_in(k0, 1000 + t), ts.observation)
                s_nat, ts_nat = nat.step(s, a)                      # what the unwrapped env does from the wrapper's state
                if int(ts_nat.step_type) == 2:
                    kl = nat.explore_reset_candidates(s_nat)
                    reset_keys.append(np.asarray(kl).tobytes())
                    episodes += 1
                s2, ts2 = jstep(s, a)
                acts.append(ids(("act", np.asarray(a))))
                outs += wrapper_out(nat, s2, ts2)
                hist.append(int(ts2.step_type))
                # model-free: a non-LAST step returns precisely the environment's step
                r13.evaluations += 1
                if int(ts_nat.step_type) != 2:
                    same = pytrees.is_equal_pytree(jax.tree_util.tree_map(np.asarray, (s2, ts2.observation, ts2.reward, ts2.discount, ts2.step_type)),
                                                   jax.tree_util.tree_map(np.asarray, (s_nat, ts_nat.observation, ts_nat.reward, ts_nat.discount, ts_nat.step_type)))
                    if not same:
                        kit.fail(["C13"], "AutoResetWrapper changed a non-terminal step", dict(cfg=cfg["label"], op="ar-mid", nx=nx), dict(t=t, seed=kit.seed, types=hist))
                s, ts = s2, ts2
            calls.append(("wrappers_ar_io", nat.tables() + [int(nx), ids(ns), len(acts)] + acts))
            metas.append(("C13", outs, dict(cfg=cfg["label"], nx=nx, types=hist, seed=kit.seed, op="ar-corr")))
            r13.traces += 1
            r13.distinct.add((name, cfg["label"], nx))
            r13.count("episodes-ended:%d" % min(episodes, 5))
            r13.count("steps", T)
            # successive automatic resets use different keys (random generators do not replay the instance)
            r13.evaluations += 1
            const_key = any(w in cfg["label"] for w in ("toy", "dummy", "csv"))
            if const_key and len(set(reset_keys)) != len(reset_keys):
                # Toy/CSV generators ignore their key and store a constant PRNGKey(0) in the state: the wrapper derives the
                # reset key from the terminal state's key as specified, the (deterministic) instance is the same anyway.
                # Outside C13_fresh_keys by its key-discipline hypothesis (DESIGN section 5 C13); counted, not alarmed.
                r13.count("constant-key-generator:reset-keys-repeat")
            elif len(set(reset_keys)) != len(reset_keys) or np.asarray(k0).tobytes() in reset_keys:
                kit.fail(["C13"], "two automatic resets used the same key", dict(cfg=cfg["label"], op="ar-fresh-keys", nx=nx), dict(seed=kit.seed, n=len(reset_keys)))
            if len(r13.samples) < 2:
                r13.samples.append(dict(env=name, cfg=cfg["label"], nx=nx, step_types=hist, auto_resets=episodes))
        # ------------------------------------------------------------------ C14: batched wrappers
        Bn = 5 if kit.tier == "quick" else 9
        for nx in (False, True):
            ids = Ids()
            nat = Native(env, ids)
            ar = W.AutoResetWrapper(env, next_obs_in_extras=nx)
            var = W.VmapAutoResetWrapper(env, next_obs_in_extras=nx)
            vma = W.VmapWrapper(ar)
            vm = W.VmapWrapper(env)
            jvar, jvma, jvm, jar = jax.jit(var.step), jax.jit(vma.step), jax.jit(vm.step), jax.jit(ar.step)
            keys = jax.random.split(jax.random.fold_in(base, 77 + int(nx)), Bn)
            S1, TS1 = jax.jit(var.reset)(keys)
            S2, TS2 = jax.jit(vma.reset)(keys)
            r14.evaluations += 1
            if not _same((S1, TS1), (S2, TS2)):
                kit.fail(["C14"], "VmapAutoResetWrapper.reset != VmapWrapper(AutoResetWrapper).reset", dict(cfg=cfg["label"], op="var-reset", nx=nx), dict(seed=kit.seed))
            # desynchronise the batch: element b is advanced b native steps first, so episodes end on different steps
            els = [jax.tree_util.tree_map(lambda x: x[b], (S1, TS1)) for b in range(Bn)]
            for b in range(Bn):
                s, ts = els[b]
                for j in range(b % 4):
                    a = jsample(jax.random.fold_in(keys[b], 500 + j), ts.observation)
                    s, ts = jar(s, a)
                els[b] = (s, ts)
            S = jax.tree_util.tree_map(lambda *xs: jnp.stack(xs), *[e[0] for e in els])
            OBS = jax.tree_util.tree_map(lambda *xs: jnp.stack(xs), *[e[1].observation for e in els])
            patterns = []
            for t in range(T):
                A = jnp.stack([jsample(jax.random.fold_in(keys[b], 9000 + t), jax.tree_util.tree_map(lambda x: x[b], OBS)) for b in range(Bn)])
                Sa, TSa = jvar(S, A)
                Sb, TSb = jvma(S, A)
                Sc, TSc = jvm(S, A)
                r14.evaluations += 3
                if not _same((Sa, TSa), (Sb, TSb)):
                    kit.fail(["C14"], "VmapAutoResetWrapper.step != VmapWrapper(AutoResetWrapper).step", dict(cfg=cfg["label"], op="var-vs-vmap-ar", nx=nx),
                             dict(t=t, seed=kit.seed, last=np.asarray(TSa.step_type).tolist()))
                sid, aid, out_var, out_vm = [], [], [], []
                ended = 0
                for b in range(Bn):
                    sb = jax.tree_util.tree_map(lambda x: x[b], S)
                    ab = A[b]
                    s_nat, ts_nat = nat.step(sb, ab)
                    if int(ts_nat.step_type) == 2:
                        nat.explore_reset_candidates(s_nat)
                        ended += 1
                    # per-instance execution of the single-instance wrapper
                    s_one, ts_one = jar(sb, ab)
                    got = jax.tree_util.tree_map(lambda x: x[b], (Sa, TSa))
                    if not _same(got, (s_one, ts_one)):
                        kit.fail(["C14"], "batched auto-reset differs from per-instance AutoResetWrapper at one index", dict(cfg=cfg["label"], op="var-pointwise", nx=nx),
                                 dict(t=t, b=b, seed=kit.seed))
                    gotc = jax.tree_util.tree_map(lambda x: x[b], (Sc, TSc))
                    if not _same((gotc[0], gotc[1].observation, gotc[1].reward, gotc[1].discount, gotc[1].step_type),
                                 (s_nat, ts_nat.observation, ts_nat.reward, ts_nat.discount, ts_nat.step_type)):
                        kit.fail(["C14"], "VmapWrapper differs from the unwrapped environment at one index", dict(cfg=cfg["label"], op="vmap-pointwise"), dict(t=t, b=b, seed=kit.seed))
                    sid.append(ids(sb))
                    aid.append(ids(("act", np.asarray(ab))))
                    out_var += wrapper_out(nat, got[0], got[1])
                    out_vm += wrapper_out(nat, gotc[0], gotc[1])
                patterns.append("none" if ended == 0 else "all" if ended == Bn else "some")
                calls.append(("wrappers_batch_io", nat.tables() + [int(nx), 0, Bn] + sid + aid))
                metas.append(("C14", out_var, dict(cfg=cfg["label"], nx=nx, t=t, which="VmapAutoReset", seed=kit.seed, op="batch-corr")))
                calls.append(("wrappers_batch_io", nat.tables() + [int(nx), 1, Bn] + sid + aid))
                metas.append(("C14", out_var, dict(cfg=cfg["label"], nx=nx, t=t, which="Vmap(AutoReset)", seed=kit.seed, op="batch-corr")))
                if not nx:
                    calls.append(("wrappers_batch_io", nat.tables() + [0, 2, Bn] + sid + aid))
                    metas.append(("C14", out_vm, dict(cfg=cfg["label"], t=t, which="Vmap", seed=kit.seed, op="batch-corr")))
                r14.distinct.add((name, cfg["label"], nx, t))
                S, OBS = Sa, TSa.observation
            for p in patterns:
                r14.count("batch-termination-pattern:" + p)
            r14.traces += 1
            # render: both wrappers hand element 0 of the batch to the inner render
            r14.evaluations += 1
            seen = []
            for wcls in (var, vma):
                inner = wcls._env if wcls is var else wcls._env._env
                orig = type(inner).render
                try:
                    type(inner).render = lambda self, st: seen.append(st)
                    wcls.render(S)
                finally:
                    type(inner).render = orig
            first = jax.tree_util.tree_map(lambda x: x[0], S)
            if len(seen) != 2 or not all(_same(x, first) for x in seen):
                kit.fail(["C14"], "a batched wrapper does not render the first element of the batch", dict(cfg=cfg["label"], op="render-first"), dict(seed=kit.seed))
            if len(r14.samples) < 2:
                r14.samples.append(dict(env=name, cfg=cfg["label"], nx=nx, batch=Bn, patterns=patterns))
        # ------------------------------------------------------------------ C15: adapters
        _adapters(kit, cfg, env, jsample, T, calls, metas)
    outs = kit.model(calls)
    for (entry, args), (pid, exp, m), got in zip(calls, metas, outs):
        kit.res[pid].evaluations += 1
        if got != exp:
            first = next((i for i, (x, y) in enumerate(zip(got, exp)) if x != y), min(len(got), len(exp)))
            kit.fail([pid], "%s: wrapper model and real wrapper disagree (%s)" % (name, m["op"]), dict(cfg=m["cfg"], op=m["op"], which=m.get("which")),
                     dict(m, first_diff_at=first, model=got[max(0, first - 7):first + 7], impl=exp[max(0, first - 7):first + 7]))


def _same(a, b):
    """same structure, shapes, dtypes; integer/bool leaves bit-equal, float leaves within 1e-6 relative (see Ids)"""
    import jax
    la, lb = jax.tree_util.tree_leaves(a), jax.tree_util.tree_leaves(b)
    if len(la) != len(lb):
        return False
    for x, y in zip(la, lb):
        x, y = np.asarray(x), np.asarray(y)
        if x.shape != y.shape or x.dtype != y.dtype:
            return False
        if x.dtype.kind == "f":
            if not np.allclose(x, y, rtol=1e-6, atol=1e-7, equal_nan=True):
                return False
        elif x.tobytes() != y.tobytes():
            return False
    return True


def _adapters(kit, cfg, env, jsample, T, calls, metas):
    import jax
    import jax.numpy as jnp
    from jumanji import wrappers as W
    name = kit.name
    r15 = kit.res["C15"]
    multi = tuple(env.reward_spec.shape) != ()
    aggs = [(jnp.sum, jnp.max, np.sum, np.max, "sum/max")]
    if multi:
        aggs.append((jnp.mean, jnp.min, np.mean, np.min, "mean/min"))
        # ---- MultiToSingleWrapper against native + numpy aggregation
        for jr, jd, nr, nd, lab in aggs:
            m2s = W.MultiToSingleWrapper(env, reward_aggregator=jr, discount_aggregator=jd)
            k = jax.random.PRNGKey(kit.seed + 3)
            (s, ts), (sn, tsn) = jax.jit(m2s.reset)(k), jax.jit(env.reset)(k)
            for t in range(min(T, 12)):
                r15.evaluations += 1
                ok = (_same((s, ts.observation, ts.step_type), (sn, tsn.observation, tsn.step_type))
                      and np.asarray(ts.reward).shape == () and np.asarray(ts.discount).shape == ()
                      and np.allclose(np.asarray(ts.reward), nr(np.asarray(tsn.reward)), rtol=1e-6)
                      and np.allclose(np.asarray(ts.discount), nd(np.asarray(tsn.discount)), rtol=1e-6)
                      and set((ts.extras or {}).keys()) == set((tsn.extras or {}).keys()))
                if not ok:
                    kit.fail(["C15"], "MultiToSingleWrapper does not return the aggregated reward/discount with everything else unchanged",
                             dict(cfg=cfg["label"], op="m2s", agg=lab), dict(t=t, seed=kit.seed))
                    break
                a = jsample(jax.random.fold_in(k, t), tsn.observation)
                (s, ts), (sn, tsn) = jax.jit(m2s.step)(s, a), jax.jit(env.step)(sn, a)
            r15.count("m2s:" + lab)
    def gym_part(base_env, tag):
        # ---- gym adapter: op history with re-seeding, compared with the model over native tables
        ids = Ids()
        nat = Native(base_env, ids)
        seed0 = 3 + kit.seed
        try:
            g = W.JumanjiToGymWrapper(base_env, seed=seed0)
        except Exception as e:
            kit.fail(["C15"], "JumanjiToGymWrapper cannot be built", dict(cfg=cfg["label"], op="gym-build"), dict(err=repr(e)[:300]))
            return
        rng = np.random.default_rng(kit.seed + 15)
        ops, wire, outs = [], [], []
        key = nat.seed(seed0)
        cur = None
        nsteps = min(T, 14)
        # seed 0 is deliberately among the re-seeds, AFTER the adapter's key has advanced (a falsy seed must still re-seed)
        plan = (["reset"] + ["step"] * nsteps + ["reset", "step", "step", "seed", "reset", "step", "reset-seed", "step", "step",
                                                 "reset-seed-same", "step", "step", "reset-seed-zero", "step", "step", "seed-zero", "reset", "step"])
        last_obs = None
        ended = False
        for o in plan:
            if o == "step" and ended:           # like a gym user: after an episode end, reset before stepping again
                o = "reset"
            if o in ("seed", "seed-zero"):
                n = 0 if o == "seed-zero" else int(rng.integers(0, 1000))
                g.seed(n)
                key = nat.seed(n)
                wire += [0, n]
                outs += [0]
                ops.append(("seed", n))
                continue
            if o in ("reset", "reset-seed", "reset-seed-same", "reset-seed-zero"):
                if o == "reset":
                    obs, info = g.reset()
                    wire += [1]
                else:
                    n = 4242 if o == "reset-seed-same" else 0 if o == "reset-seed-zero" else int(rng.integers(0, 1000))
                    if o == "reset-seed-same":
                        pass
                    obs, info = g.reset(seed=n)
                    key = nat.seed(n)
                    wire += [2, n]
                l, r = nat.split(key)
                for kk in (l, r, key):               # the right half and the unsplit key are decoys
                    nat.reset(kk)
                cur, ts = nat.jreset(l)
                key = r
                outs += [1, _gym_obs_id(ids, obs, ts.observation), ids(("ext", {k: v for k, v in (info or {}).items()}))]
                ops.append((o,))
                last_obs = ts.observation
                ended = False
                _gym_member(kit, cfg, g, obs, "observation")
                continue
            # step with an action sampled from the converted gym action space half of the time
            if rng.random() < 0.5:
                a = g.action_space.sample()
                a = np.asarray(a, dtype=base_env.action_spec.dtype)
                r15.count("gym-action:sampled-from-space")
                try:
                    base_env.action_spec.validate(jnp.asarray(a))
                except Exception as e:
                    kit.fail(["C15"], "an action sampled from the converted gym action space is not a valid native action",
                             dict(cfg=cfg["label"], op="gym-sample-valid"), dict(action=np.asarray(a).tolist(), err=repr(e)[:200]))
            else:
                a = np.asarray(jsample(jax.random.PRNGKey(int(rng.integers(0, 10 ** 6))), last_obs))
                r15.count("gym-action:policy")
            cur2, ts = nat.step(cur, jnp.asarray(a))
            obs, rew, term, trunc, info = g.step(a)
            wire += [3, ids(("act", np.asarray(jnp.asarray(a))))]
            outs += [2, _gym_obs_id(ids, obs, ts.observation), ids(("rew", np.asarray(ts.reward))) if float(rew) == float(np.asarray(ts.reward)) else -7,
                     int(bool(term)), int(bool(trunc)), ids(("ext", {k: v for k, v in (info or {}).items()}))]
            ops.append(("step", np.asarray(a).tolist()))
            _gym_member(kit, cfg, g, obs, "observation")
            r15.evaluations += 1
            if not (isinstance(rew, float) and isinstance(term, bool) and isinstance(trunc, bool)):
                kit.fail(["C15"], "gym step does not return (float, bool, bool)", dict(cfg=cfg["label"], op="gym-types"), dict(ops=ops[-3:]))
            cur, last_obs = cur2, ts.observation
            ended = int(ts.step_type) == 2
        zs = sorted(nat.zero_disc)
        calls.append(("wrappers_gym_io", nat.tables() + [len(zs)] + zs + [seed0] + wire))
        metas.append(("C15", outs, dict(cfg=cfg["label"] + tag, op="gym-corr", ops=ops, seed=kit.seed)))
        r15.traces += 1
        r15.distinct.add((name, cfg["label"] + tag, "gym"))
        if len(r15.samples) < 2:
            r15.samples.append(dict(env=name, cfg=cfg["label"], adapter="gym", ops=[o[0] for o in ops]))
    base_env = W.MultiToSingleWrapper(env) if multi else env
    gym_part(base_env, "")
    if multi:
        # a discount aggregator that yields FRACTIONS when the agents' discounts differ (Connector): gym's `terminated` must stay
        # "the native discount is zero", not "the discount is not one"
        gym_part(W.MultiToSingleWrapper(env, discount_aggregator=jnp.mean), "/mean-discount")
    # ---- dm_env adapter
    rng = np.random.default_rng(kit.seed + 16)
    ids = Ids()
    nat = Native(base_env, ids)
    k0 = jax.random.PRNGKey(kit.seed + 21)
    d = W.JumanjiToDMEnvWrapper(base_env, key=k0)
    key = k0
    wire, outs, ops = [], [], []
    cur = None
    ended = False
    for o in ["reset"] + ["step"] * min(T, 10) + ["reset", "step", "step"]:
        if o == "step" and ended:
            o = "reset"
        if o == "reset":
            ended = False
            dts = d.reset()
            l, r = nat.split(key)
            for kk in (l, r, key):
                nat.reset(kk)
            cur, ts = nat.jreset(l)
            key = r
            wire += [1]
            outs += [1, ids(("obs", dts.observation))]
            r15.evaluations += 1
            if dts.reward is not None or dts.discount is not None or not dts.first():
                kit.fail(["C15"], "dm_env first timestep carries a reward or discount", dict(cfg=cfg["label"], op="dm-first"), dict(seed=kit.seed))
            last_obs = ts.observation
        else:
            a = np.asarray(jsample(jax.random.PRNGKey(int(rng.integers(0, 10 ** 6))), last_obs))
            cur, ts = nat.step(cur, jnp.asarray(a))
            dts = d.step(a)
            wire += [3, ids(("act", np.asarray(jnp.asarray(a))))]
            outs += [2, int(dts.step_type), ids(("obs", dts.observation)), ids(("rew", np.asarray(dts.reward))), ids(("disc", np.asarray(dts.discount)))]
            last_obs = ts.observation
            ended = int(ts.step_type) == 2
        ops.append(o)
    try:
        import tree as tree_lib
        ospec = d.observation_spec()
        tree_lib.map_structure(lambda sp, v: sp.validate(np.asarray(v)), ospec, named_like(ospec, dts.observation))
        r15.evaluations += 1
    except Exception as e:
        kit.fail(["C15"], "dm_env observation does not satisfy the converted spec", dict(cfg=cfg["label"], op="dm-obs-spec"), dict(err=repr(e)[:300]))
    calls.append(("wrappers_dm_io", nat.tables() + [nat.key_id(k0)] + wire))
    metas.append(("C15", outs, dict(cfg=cfg["label"], op="dm-corr", ops=ops, seed=kit.seed)))
    r15.traces += 1
    r15.distinct.add((name, cfg["label"], "dm"))


def named_like(spec, obs):
    """observation arranged like the converted dm_env spec (a dict keyed by field name, or a single array)"""
    if isinstance(spec, dict):
        n = named(obs)
        return {k: named_like(spec[k], n[k]) if isinstance(spec[k], dict) else n[k] for k in spec}
    return obs


def _gym_obs_id(ids, gym_obs, native_obs):
    """id of the native observation if the gym observation is the same data under the same field names, else -5"""
    a, b = flat_named(gym_obs), flat_named(named(native_obs))
    return ids(("obs", native_obs)) if a == b else -5


def _gym_member(kit, cfg, g, obs, what):
    kit.res["C15"].evaluations += 1
    try:
        ok = g.observation_space.contains(obs)
    except Exception as e:
        ok = False
    if not ok:
        kit.fail(["C15"], "gym %s does not belong to the converted observation space" % what, dict(cfg=cfg["label"], op="gym-obs-space"), dict(seed=kit.seed))
