#!/usr/bin/env python3
"""tools/coverage.py : per-environment x per-property count of theorems in coq/Props (p = some are `_partial`, r = some are `_refuted`)"""
import collections, glob, os, re
envs = collections.OrderedDict()
for f in sorted(glob.glob('/verif/coq/Props/C*_*.v')):
    b = os.path.basename(f)[:-2]
    pid, rest = b.split('_', 1)
    env = rest.split('_')[0]
    if env == "Shipped":
        continue
    th = re.findall(r"^\s*Theorem\s+(\w+)", open(f).read(), flags=re.M)
    c = envs.setdefault(env, {}).setdefault(pid, [0, 0, 0])
    c[0] += len(th); c[1] += sum('partial' in t for t in th); c[2] += sum('refuted' in t for t in th)
pids = ["C01", "C03", "C04", "C05", "C06", "C07", "C08", "C09", "C10", "C11", "C12", "C17"]
print("| env | " + " | ".join(pids) + " |"); print("|---|" + "---|" * len(pids))
for e, d in envs.items():
    print("| %s | %s |" % (e, " | ".join((str(d[p][0]) + "p" * (d[p][1] > 0) + "r" * (d[p][2] > 0)) if p in d else "·" for p in pids)))
print("\nper-environment theorems: %d; generic theorem files: %s" % (
    sum(v[0] for d in envs.values() for v in d.values()),
    ", ".join("%s (%d)" % (os.path.basename(f), len(re.findall(r"^\s*Theorem\s", open(f).read(), flags=re.M)))
              for f in sorted(glob.glob('/verif/coq/Props/C[0-9][0-9].v') + glob.glob('/verif/coq/Props/C18_Shipped.v')))))
