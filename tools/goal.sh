#!/bin/bash
# usage: tools/goal.sh coq/Proofs/X.v LINE [extra tactic text]
# Compiles the first LINE lines of the file, appends the optional tactic text and `Show.`, prints the goals.
# (A cheap substitute for an interactive session; scratch file lives in $TMPDIR, nothing is kept.)
f=$1; n=$2; extra=$3
d=$(mktemp -d); t=$d/Scratch$$.v
head -n "$n" "$f" > "$t"; echo "$extra Show." >> "$t"
( cd /verif/coq && timeout 300 coqc -Q . JV "$t" 2>&1 | grep -v '^$' | grep -v 'pending proofs' | head -${GOAL_LINES:-80} )
rm -rf "$d"
