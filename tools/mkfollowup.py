#!/usr/bin/env python3
import sys, os
t = open(os.path.join(os.path.dirname(__file__), "followup_prompt.txt")).read()
env, camel = sys.argv[1:3]
tasks = " ".join(sys.argv[3:])
print(t.replace("@ENV@", env).replace("@CAMEL@", camel).replace("@TASKS@", tasks))
