#!/usr/bin/env python3
"""tools/mkmeta.py <seeded dir name> <property> <breaks> <needs> <detected_by> : write seeded/<dir>/meta.json (confirm.txt must exist)"""
import json, sys
d, pid, breaks, needs, det = sys.argv[1:6]
p = "/verif/seeded/%s/" % d
json.dump({"property": pid, "breaks": breaks, "needs_to_manifest": needs, "confirmed": open(p + "confirm.txt").read().strip(),
           "ran": "tools/seed.sh (demo fails with / passes without; touched package tests pass); detection: tools/mutcheck.sh <mutant worktree> <env> or VERIF_REPO=<worktree> ./check <pid>",
           "detected_by": det}, open(p + "meta.json", "w"), indent=1)
