#!/usr/bin/env python3
"""tools/mkprompt.py ENV CLASS PATH CAMEL PROPS [EXISTING...] -> prints the sub-agent prompt"""
import sys, os
t = open(os.path.join(os.path.dirname(__file__), "agent_prompt.txt")).read()
env, cls, path, camel, props = sys.argv[1:6]
existing = " ".join(sys.argv[6:]) or "Nothing exists yet for this environment apart from the generic checks (C01/C03/C11) that already run on it."
for k, v in (("@ENV@", env), ("@CLASS@", cls), ("@PATH@", path), ("@CAMEL@", camel), ("@PROPS@", props), ("@EXISTING@", existing)):
    t = t.replace(k, v)
print(t)
