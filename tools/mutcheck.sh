#!/bin/bash
# tools/mutcheck.sh <repo-or-worktree> <env> : run one environment's analyses against another tree; per-property failure counts
VERIF_REPO=$1 ./check --env $2 2>&1 | grep -E "^C[0-9]+ evaluations|FAIL:" | awk '/^C/{p=$1; n=$NF; if(n>0) print p, "failures", n; next} /FAIL:/{ if(!(p in seen)) {seen[p]=1; print "   ", substr($0,1,230)} }'
