#!/usr/bin/env python3
"""tools/mutprompt.py PID WORKTREE [HINT...] -> prompt for an independent mutation-writing agent (gets NOTHING from /verif)"""
import json, sys
pid, wt = sys.argv[1], sys.argv[2]
hint = " ".join(sys.argv[3:])
p = [json.loads(l) for l in open("/verif/properties.jsonl") if json.loads(l)["id"] == pid][0]
print(f"""You are helping to evaluate a verification effort for the Python/JAX library instadeepai/jumanji (a suite of JAX reinforcement-learning
environments with a common Environment/spec API and wrappers). You have your OWN scratch git worktree of the repository at
{wt} — work ONLY there (never touch /repo, never read or touch /verif). Python: /venv/bin/python (run with
PYTHONPATH={wt} JAX_PLATFORMS=cpu HF_HUB_OFFLINE=1 so that the worktree's code is imported, not /repo's; verify with
`python -c "import jumanji; print(jumanji.__file__)"`). No network.

The semantic property under study:

  id: {p['id']} — {p['title']}
  statement: {p['statement']}
  quantified over: {p['quantifier']['text']}
  why the existing tests cannot settle it: {p['why_tests_cant']}
  anchored in: {', '.join(p['anchors']['files'][:30])}

Your task: write ONE realistic change (a small patch a tired developer could plausibly make: an off-by-one, a swapped argument, a stale variable,
a wrong branch, a refactoring slip) to the library code under {wt}/jumanji that BREAKS this property, while
  (1) the code still imports and runs, and
  (2) the existing test suite still passes (at the very least every test file in the packages you touched: run them with
      `cd {wt} && PYTHONPATH={wt} JAX_PLATFORMS=cpu HF_HUB_OFFLINE=1 /venv/bin/python -m pytest -q -p no:cacheprovider <test files>`;
      note 10 Sokoban dataset tests and test_registration__make fail on the unmodified tree already — ignore those), and
  (3) the breakage needs something SPECIFIC to manifest — an unusual configuration (non-square grid, >1 agents, a non-default generator or reward
      function, a particular time limit), a multi-step sequence, a boundary state, a particular interleaving of terminations in a batch, two sites
      that each look fine alone — not something ordinary use (default config, a few random steps) would expose at once.
{('Hint on where to look: ' + hint) if hint else ''}
Do not edit tests. Do not add new files to the library. Keep the patch small (ideally < 15 changed lines).

Deliver, inside {wt}:
  - the change itself, left UNCOMMITTED in the worktree (so that `git -C {wt} diff` shows exactly your patch);
  - a demonstration program {wt}/demo_{pid}.py that exits non-zero (assertion failure) WITH your change and exits 0 WITHOUT it
    (check both — NEVER use `git stash`, it is shared between worktrees; instead `git diff > /tmp/patch_{pid}.diff; git checkout -- jumanji; <run demo>; git apply /tmp/patch_{pid}.diff`), runs in under ~2 minutes, and prints what it observed;
Then report: the diff, which part of the property it breaks, what it needs in order to manifest, which test files you ran and their result,
and the demo's output with and without the change.""")
