#!/venv/bin/python
"""tools/predcov.py <env> [tier] : PREDICATE COVERAGE of the correspondence harness on one environment (developer tool).

The correspondence is differential testing, so its power is bounded by the inputs the harness builds.  This tool measures them where it
matters: every `jax.lax.cond` / `jax.lax.select` / `jnp.where` / `jax.lax.switch` executed from the environment's source (under
/repo/jumanji/environments/<env> and jumanji/wrappers.py) is instrumented with a host callback that records, per call site (file:line),
whether its predicate was seen True and seen False (for `switch`: which branch indices) over the WHOLE analysis of that environment
(rollouts, constructed states, all-actions sweeps, generator replays).  Call sites whose predicate was only ever seen one way are the
harness's blind spots: a change confined to the other branch cannot be noticed by the correspondence.  Nothing in /repo is modified
(the JAX entry points are wrapped in this process only).  COST: host callbacks inside every traced program make XLA compilation very
slow (Sokoban: 45 minutes for the quick tier) -- a developer tool, not part of any registered check.  Usage: tools/predcov.py sokoban"""
import collections
import os
import sys

sys.path.insert(0, os.path.dirname(os.path.dirname(os.path.abspath(__file__))))
os.environ.setdefault("JAX_PLATFORMS", "cpu")
REPO = os.environ.get("VERIF_REPO", "/repo")
sys.path.insert(0, REPO)

import numpy as np  # noqa: E402
import jax  # noqa: E402
import jax.numpy as jnp  # noqa: E402

SEEN = collections.defaultdict(lambda: [False, False, set()])


def _site():
    f = sys._getframe(2)
    while f is not None:
        fn = f.f_code.co_filename
        if fn.startswith(REPO + "/jumanji/") and "/training/" not in fn:
            return "%s:%d" % (os.path.relpath(fn, REPO), f.f_lineno)
        f = f.f_back
    return None


def _record(site, pred, kind):
    if site is None:
        return

    def cb(p):
        a = np.asarray(p)
        if kind == "switch":
            SEEN[site][2] |= set(int(x) for x in a.reshape(-1))
        else:
            b = a.astype(bool)
            SEEN[site][1] |= bool(b.any())
            SEEN[site][0] |= bool((~b).any())
    try:
        jax.debug.callback(cb, pred)
    except Exception:
        pass


def install():
    oc, osel, osw, ow = jax.lax.cond, jax.lax.select, jax.lax.switch, jnp.where

    def cond(pred, *a, **k):
        _record(_site(), pred, "cond")
        return oc(pred, *a, **k)

    def select(pred, *a, **k):
        _record(_site(), pred, "select")
        return osel(pred, *a, **k)

    def switch(index, *a, **k):
        _record(_site(), index, "switch")
        return osw(index, *a, **k)

    def where(c, *a, **k):
        if a:
            _record(_site(), c, "where")
        return ow(c, *a, **k)
    jax.lax.cond, jax.lax.select, jax.lax.switch, jnp.where = cond, select, switch, where


def main():
    env = sys.argv[1]
    tier = sys.argv[2] if len(sys.argv) > 2 else "quick"
    install()
    from harness import envkit
    envkit.run_env(env, tier, int(os.environ.get("VERIF_SEED", "0")))
    jax.effects_barrier()
    one_sided = []
    for site, (f, t, idx) in sorted(SEEN.items()):
        if idx:
            print("  switch %-70s branches seen %s" % (site, sorted(idx)))
        else:
            tag = "both" if (f and t) else ("only-True" if t else "only-False")
            if tag != "both":
                one_sided.append((site, tag))
            print("  %-9s %s" % (tag, site))
    print("%d instrumented call sites, %d seen one way only" % (len(SEEN), len(one_sided)))
    for site, tag in one_sided:
        fn, ln = site.rsplit(":", 1)
        try:
            src = open(os.path.join(REPO, fn)).read().split("\n")[int(ln) - 1].strip()
        except Exception:
            src = ""
        print("ONE-SIDED %s %s | %s" % (tag, site, src[:110]))


if __name__ == "__main__":
    main()
