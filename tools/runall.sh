#!/bin/bash
# tools/runall.sh [tier]: setup + every check once, summary at the end (what `vp check` does, locally)
cd "$(dirname "$0")/.."
tier=${1:-quick}
mkdir -p .cache
log=.cache/runall-$tier.log
( time ./check --warm $tier ) > $log 2>&1
for p in C01 C02 C03 C04 C05 C06 C07 C08 C09 C10 C11 C12 C13 C14 C15 C16 C17 C18 C19; do
  s=$(date +%s)
  ./check $p --tier $tier > .cache/runall-$p.log 2>&1; rc=$?
  echo "$p rc=$rc $(( $(date +%s) - s ))s $(tail -1 .cache/runall-$p.log)" >> $log
done
grep -h "VIOLATION\|KNOWN" .cache/runall-C*.log >> $log
echo DONE >> $log
