#!/bin/bash
# tools/seed.sh <pid> <slug> <worktree> : store a sub-agent's mutant under seeded/<pid>-<slug>/ and confirm it:
#   demo fails WITH the change, passes WITHOUT; touched packages' tests still pass with the change.
pid=$1; slug=$2; wt=$3
d=/verif/seeded/$pid-$slug; mkdir -p $d
git -C $wt diff > $d/patch.diff
cp $wt/demo_$pid.py $d/demo.py
export PYTHONPATH=$wt JAX_PLATFORMS=cpu HF_HUB_OFFLINE=1 PYTHONHASHSEED=0
cd $wt
timeout 900 /venv/bin/python -W ignore demo_$pid.py > $d/demo_with.log 2>&1; with=$?
git diff > /tmp/_seed_$pid.patch; git checkout -q -- .
timeout 900 /venv/bin/python -W ignore demo_$pid.py > $d/demo_without.log 2>&1; without=$?
git apply /tmp/_seed_$pid.patch; rm -f /tmp/_seed_$pid.patch
pk=$(git diff --name-only | xargs -n1 dirname | sort -u | tr '\n' ' ')
tests=""
for p in $pk; do if [ "$p" = "jumanji" ]; then tests="$tests $(ls jumanji/*_test.py | tr '\n' ' ')"; else tests="$tests $p"; fi; done
timeout 3000 /venv/bin/python -W ignore -m pytest -q -p no:cacheprovider -x --deselect jumanji/registration_test.py::test_registration__make $tests > $d/tests_with.log 2>&1; t=$?
echo "demo_with_rc=$with demo_without_rc=$without tests_rc=$t tests: $tests" | tee $d/confirm.txt
tail -2 $d/tests_with.log
