#!/bin/bash
# tools/seedcheck.sh <pid> <slug> <worktree> <env-or-Cxx> : confirm a sub-agent's mutant (tools/seed.sh) and run the machinery against it
pid=$1; slug=$2; wt=$3; tgt=$4
cd /verif
tools/seed.sh $pid $slug $wt 2>&1 | tail -2
echo "--- detection ($tgt)"
case $tgt in
  C[0-9][0-9]) VERIF_REPO=$wt ./check $tgt --tier quick 2>&1 | tail -7 | cut -c1-300 ;;
  *) tools/mutcheck.sh $wt $tgt 2>&1 | cut -c1-300 ;;
esac
