#!/bin/bash
# tools/srccheck.sh <seeded dir> : apply the seeded patch to a scratch worktree, regenerate Gen/*.v from it into a scratch copy of
# coq/, and report which generated files / tie proofs no longer compile (proof-level detection by the source translators)
d=/verif/seeded/$1; w=/tmp/srccheck_wt; c=/tmp/srccheck_coq
git -C /repo worktree remove --force $w 2>/dev/null; rm -rf $c
git -C /repo worktree add -q --detach $w HEAD && git -C $w apply $d/patch.diff || exit 2
rsync -a --exclude '*.vo' --exclude '*.glob' --exclude '*.vos' --exclude '*.vok' --exclude '.*.aux' /verif/coq/ $c/
# reuse compiled Base/Model/Proofs that do not depend on Gen: copy all .vo, then drop Gen .vo and every *_Src / Wiring proof
rsync -a --include '*/' --include '*.vo' --exclude '*' /verif/coq/ $c/
rm -f $c/Gen/*.vo $c/Proofs/*_Src.vo $c/Proofs/TimeLimit_Wiring.vo
cd /verif && VERIF_REPO=$w PYTHONPATH=$w /venv/bin/python -W ignore - <<PY
import sys, os, importlib, pkgutil, traceback
sys.path.insert(0, '/verif')
import harness.translators as T
for m in pkgutil.iter_modules(T.__path__):
    mod = importlib.import_module('harness.translators.' + m.name)
    if not hasattr(mod, 'generate'): continue
    try:
        for name, text in mod.generate().items():
            old = open('$c/Gen/' + name).read() if os.path.exists('$c/Gen/' + name) else None
            if old != text:
                print('CHANGED', name)
            open('$c/Gen/' + name, 'w').write(text)
    except Exception as e:
        print('TRANSLATOR-FAILED', m.name, str(e)[:200])
        for name in getattr(mod, 'OUTPUTS', []):
            open('$c/Gen/' + name, 'w').write('Definition translator_failed : False := I.\n')
PY
cd $c
for f in Gen/TimeStepSrc.v $(ls Gen/*.v | grep -v TimeStepSrc); do timeout 300 coqc -Q . JV $f > /tmp/srccheck.out 2>&1 || echo "GEN-FAILS $f"; done
for f in Proofs/*_Src.v Proofs/TimeLimit_Wiring.v; do timeout 300 coqc -Q . JV $f > /tmp/srccheck.out 2>&1 || { echo "PROOF-BREAKS $f"; head -c 300 /tmp/srccheck.out | tr '\n' ' '; echo; }; done
git -C /repo worktree remove --force $w; rm -rf $c /tmp/srccheck.out
