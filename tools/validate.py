#!/usr/bin/env python3
"""tools/validate.py : validate MANIFEST.json and every evidence/*.json against the schemas (python3-vt has jsonschema)."""
import glob, json, sys
import jsonschema
ok = True
def v(path, schema):
    global ok
    try:
        jsonschema.validate(json.load(open(path)), json.load(open(schema)))
        print("valid  ", path)
    except Exception as e:
        ok = False
        print("INVALID", path, str(e)[:400])
v("/verif/MANIFEST.json", "/root/.vp/MANIFEST.schema.json")
for f in sorted(glob.glob("/verif/evidence/*.json")):
    v(f, "/root/.vp/EVIDENCE.schema.json")
sys.exit(0 if ok else 1)
